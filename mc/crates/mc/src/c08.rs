//! C08 — template linking = substitution; policy-set edits keep ids consistent.
//!
//! Explicit-state BFS (stateright) over `cedar_policy::PolicySet`. Every transition calls the
//! real API once, in lock-step with a reference model made of three disjoint maps
//! (statics, templates, links: id -> (template id, slot bindings)). `PolicySet` is not `Hash`,
//! so a state holds the reference model, the operation history that rebuilds the real object
//! (replayed on demand) and the hash of a canonical form READ BACK FROM THE IMPLEMENTATION
//! (sorted ids of policies()/templates(), links with template id and bindings, the core-level
//! maps), so that a leaked id or an orphan link is a new state, not a merged one.
use crate::bind::*;
use crate::harness::*;
use crate::world::*;
use cedar_policy::{Authorizer, Entities, EntityUid, Policy, PolicyId, PolicySet, Request, SlotId, Template};
use cedar_policy_core::ast;
use refsem::print::Style;
use refsem::{Effect, Inst, Pol, Ref, Req, Resp, Store, Uid, Val, AS, PR};
use refsem::{BinOp, Var, E};
use serde::{Deserialize, Serialize};
use serde_json::{json, Value as J};
use stateright::{Checker, Model as SrModel, Property};
use std::collections::{BTreeMap, BTreeSet, HashMap};
use std::hash::{Hash, Hasher};
use std::sync::atomic::{AtomicBool, AtomicU64, Ordering};
use std::sync::{Arc, Mutex, OnceLock, RwLock};

type Id = String;

// ---------------------------------------------------------------------------------------
// alphabet
// ---------------------------------------------------------------------------------------

fn pid(n: usize) -> Id {
    // ids are spelled like the names `merge` invents, so that "fresh" is a real constraint
    format!("policy{n}")
}

fn pool(tier: Tier) -> Vec<Id> {
    (0..tier.pick(2, 3)).map(pid).collect()
}

fn pol(effect: Effect, ann: Vec<(&str, Option<&str>)>, principal: PR, action: AS, resource: PR, conds: Vec<(bool, E)>) -> Pol {
    Pol {
        id: String::new(),
        effect,
        annotations: ann.into_iter().map(|(k, v)| (k.to_string(), v.map(|s| s.to_string()))).collect(),
        principal,
        action,
        resource,
        conds,
    }
}

/// S0 `permit(principal == User::"a", action, resource);`
/// S1 `@why("s1") forbid(principal, action, resource) when { context.n > 0 };`
fn static_bodies() -> Vec<Pol> {
    vec![
        pol(Effect::Permit, vec![], PR::Eq(Ref::Uid(ua())), AS::Any, PR::Any, vec![]),
        pol(
            Effect::Forbid,
            vec![("why", Some("s1"))],
            PR::Any,
            AS::Any,
            PR::Any,
            vec![(true, E::bin(BinOp::Gt, E::attr(E::Var(Var::Context), "n"), E::Long(0)))],
        ),
    ]
}

/// T0 `@tag("t0") permit(principal == ?principal, action, resource);`
/// T1 `@note forbid(principal in ?principal, action == Action::"view", resource is Doc in ?resource);`
/// T2 `permit(principal is User in ?principal, action, resource == ?resource) unless { context has who };`
/// T3 `@tag("t3") forbid(principal, action == Action::"edit", resource in ?resource);`
/// (quick adds T0,T1 through `add_template`; T2 only occurs in an initial set; thorough adds all)
fn template_bodies() -> Vec<Pol> {
    vec![
        pol(Effect::Permit, vec![("tag", Some("t0"))], PR::Eq(Ref::Slot), AS::Any, PR::Any, vec![]),
        pol(Effect::Forbid, vec![("note", None)], PR::In(Ref::Slot), AS::Eq(view()), PR::IsIn("Doc".into(), Ref::Slot), vec![]),
        pol(
            Effect::Permit,
            vec![],
            PR::IsIn("User".into(), Ref::Slot),
            AS::Any,
            PR::Eq(Ref::Slot),
            vec![(false, E::has(E::Var(Var::Context), "who"))],
        ),
        pol(Effect::Forbid, vec![("tag", Some("t3"))], PR::Any, AS::Eq(edit()), PR::In(Ref::Slot), vec![]),
    ]
}

fn n_template_bodies(tier: Tier) -> usize {
    tier.pick(2, 4)
}

#[derive(Clone, Debug, PartialEq, Eq, Hash, PartialOrd, Ord, Serialize, Deserialize, Default)]
pub struct Bind {
    p: Option<Uid>,
    r: Option<Uid>,
}

impl Bind {
    fn show(&self) -> String {
        let mut v = vec![];
        if let Some(u) = &self.p {
            v.push(format!("?principal={}::\"{}\"", u.ty, u.id));
        }
        if let Some(u) = &self.r {
            v.push(format!("?resource={}::\"{}\"", u.ty, u.id));
        }
        format!("{{{}}}", v.join(","))
    }
    fn to_api(&self) -> HashMap<SlotId, EntityUid> {
        let mut m = HashMap::new();
        if let Some(u) = &self.p {
            m.insert(SlotId::principal(), c_uid(u));
        }
        if let Some(u) = &self.r {
            m.insert(SlotId::resource(), c_uid(u));
        }
        m
    }
    fn as_map(&self) -> BTreeMap<String, Uid> {
        let mut m = BTreeMap::new();
        if let Some(u) = &self.p {
            m.insert("?principal".to_string(), u.clone());
        }
        if let Some(u) = &self.r {
            m.insert("?resource".to_string(), u.clone());
        }
        m
    }
}

/// bindings ⊆ {?principal ↦ a|g, ?resource ↦ g}, including missing and extra slots
fn all_binds() -> Vec<Bind> {
    let b = |p: Option<Uid>, r: Option<Uid>| Bind { p, r };
    vec![b(None, None), b(Some(ua()), None), b(Some(gg()), None), b(None, Some(gg())), b(Some(ua()), Some(gg())), b(Some(gg()), Some(gg()))]
}

fn few_binds() -> Vec<Bind> {
    vec![Bind { p: None, r: None }, Bind { p: Some(ua()), r: None }]
}

#[derive(Clone, Debug, PartialEq, Eq, Hash, Serialize, Deserialize)]
pub enum Op {
    /// start from initial set k (always the first element of a history)
    Init(u8),
    Add { body: u8, id: Id },
    /// `add` of a template-linked `Policy` object (must be refused)
    AddLinked { id: Id },
    AddTemplate { body: u8, id: Id },
    Link { tid: Id, new: Id, bind: Bind },
    Unlink(Id),
    RemoveStatic(Id),
    RemoveTemplate(Id),
    Merge { other: u8, rename: bool },
}

impl Op {
    fn name(&self) -> &'static str {
        match self {
            Op::Init(_) => "init",
            Op::Add { .. } => "add",
            Op::AddLinked { .. } => "add-linked",
            Op::AddTemplate { .. } => "add_template",
            Op::Link { .. } => "link",
            Op::Unlink(_) => "unlink",
            Op::RemoveStatic(_) => "remove_static",
            Op::RemoveTemplate(_) => "remove_template",
            Op::Merge { rename: true, .. } => "merge-rename",
            Op::Merge { rename: false, .. } => "merge",
        }
    }
    fn show(&self) -> String {
        match self {
            Op::Init(k) => format!("init#{k}"),
            Op::Add { body, id } => format!("add(S{body}@{id})"),
            Op::AddLinked { id } => format!("add(<linked policy {id}>)"),
            Op::AddTemplate { body, id } => format!("add_template(T{body}@{id})"),
            Op::Link { tid, new, bind } => format!("link({tid},{new},{})", bind.show()),
            Op::Unlink(i) => format!("unlink({i})"),
            Op::RemoveStatic(i) => format!("remove_static({i})"),
            Op::RemoveTemplate(i) => format!("remove_template({i})"),
            Op::Merge { other, rename } => format!("merge(O{other},rename={rename})"),
        }
    }
}

fn show_hist(h: &[Op]) -> String {
    h.iter().map(|o| o.show()).collect::<Vec<_>>().join("; ")
}

// ---------------------------------------------------------------------------------------
// reference model: three disjoint maps
// ---------------------------------------------------------------------------------------

#[derive(Clone, Debug, PartialEq, Eq, Hash, PartialOrd, Ord)]
enum Entry {
    Static(u8),
    Template(u8),
    Link(Id, Bind),
}

impl Entry {
    fn kind(&self) -> &'static str {
        match self {
            Entry::Static(_) => "static",
            Entry::Template(_) => "template",
            Entry::Link(..) => "link",
        }
    }
}

#[derive(Clone, Debug, PartialEq, Eq, Hash, Default, Serialize, Deserialize)]
pub struct PsModel {
    statics: BTreeMap<Id, u8>,
    templates: BTreeMap<Id, u8>,
    links: BTreeMap<Id, (Id, Bind)>,
}

impl PsModel {
    fn get(&self, id: &str) -> Option<Entry> {
        if let Some(b) = self.statics.get(id) {
            return Some(Entry::Static(*b));
        }
        if let Some(b) = self.templates.get(id) {
            return Some(Entry::Template(*b));
        }
        self.links.get(id).map(|(t, b)| Entry::Link(t.clone(), b.clone()))
    }
    fn kind(&self, id: &str) -> &'static str {
        self.get(id).map(|e| e.kind()).unwrap_or("absent")
    }
    fn ids(&self) -> BTreeSet<Id> {
        self.statics.keys().chain(self.templates.keys()).chain(self.links.keys()).cloned().collect()
    }
    fn entries(&self) -> Vec<(Id, Entry)> {
        self.ids().into_iter().map(|i| (i.clone(), self.get(&i).unwrap())).collect()
    }
    fn is_empty(&self) -> bool {
        self.statics.is_empty() && self.templates.is_empty() && self.links.is_empty()
    }
    fn insert(&mut self, id: Id, e: Entry) {
        match e {
            Entry::Static(b) => {
                self.statics.insert(id, b);
            }
            Entry::Template(b) => {
                self.templates.insert(id, b);
            }
            Entry::Link(t, b) => {
                self.links.insert(id, (t, b));
            }
        }
    }
    /// the model's own invariants (a broken one is a harness error, never a verdict)
    fn well_formed(&self) -> Result<(), String> {
        let n = self.statics.len() + self.templates.len() + self.links.len();
        if self.ids().len() != n {
            return Err(format!("reference maps are not disjoint: {self:?}"));
        }
        for (l, (t, _)) in &self.links {
            if !self.templates.contains_key(t) {
                return Err(format!("reference model has orphan link {l} -> {t}"));
            }
        }
        Ok(())
    }
    fn links_of(&self, tid: &str) -> BTreeSet<Id> {
        self.links.iter().filter(|(_, (t, _))| t == tid).map(|(l, _)| l.clone()).collect()
    }
    fn show(&self) -> String {
        let mut v = vec![];
        for (i, b) in &self.statics {
            v.push(format!("{i}=S{b}"));
        }
        for (i, b) in &self.templates {
            v.push(format!("{i}=T{b}"));
        }
        for (i, (t, b)) in &self.links {
            v.push(format!("{i}->{t}{}", b.show()));
        }
        format!("[{}]", v.join(", "))
    }
}

#[derive(Clone, Copy, Debug, PartialEq, Eq)]
enum Pred {
    Ok,
    Err,
    /// the documentation leaves the outcome open
    Open,
}

fn slots_of(tb: &Pol) -> (bool, bool) {
    (tb.principal_slot(), tb.resource_slot())
}

/// Ok/Err per the documented preconditions, plus a short reason used as outcome class
fn predict(m: &PsModel, op: &Op, t: &Tables) -> (Pred, String) {
    match op {
        Op::Init(_) => (Pred::Ok, "init".into()),
        Op::Add { id, .. } | Op::AddTemplate { id, .. } => match m.kind(id) {
            "absent" => (Pred::Ok, "fresh".into()),
            k => (Pred::Err, format!("dup-{k}")),
        },
        Op::AddLinked { id } => (Pred::Err, format!("not-static:{}", m.kind(id))),
        Op::Link { tid, new, bind } => match m.get(tid) {
            None => (Pred::Err, "no-template".into()),
            Some(Entry::Static(_)) => (Pred::Err, "tid-is-static".into()),
            Some(Entry::Link(..)) => (Pred::Err, "tid-is-link".into()),
            Some(Entry::Template(b)) => {
                let (sp, sr) = slots_of(&t.tbodies[b as usize]);
                let missing = (sp && bind.p.is_none()) || (sr && bind.r.is_none());
                let extra = (!sp && bind.p.is_some()) || (!sr && bind.r.is_some());
                if missing || extra {
                    (Pred::Err, format!("binding{}{}", if missing { "-missing" } else { "" }, if extra { "-extra" } else { "" }))
                } else {
                    match m.kind(new) {
                        "absent" => (Pred::Ok, "fresh".into()),
                        k => (Pred::Err, format!("new-id-dup-{k}")),
                    }
                }
            }
        },
        Op::Unlink(id) => match m.kind(id) {
            "link" => (Pred::Ok, "link".into()),
            k => (Pred::Err, k.to_string()),
        },
        Op::RemoveStatic(id) => match m.kind(id) {
            "static" => (Pred::Ok, "static".into()),
            k => (Pred::Err, k.to_string()),
        },
        Op::RemoveTemplate(id) => match m.kind(id) {
            "template" => {
                if m.links_of(id).is_empty() {
                    (Pred::Ok, "unlinked-template".into())
                } else {
                    (Pred::Err, "template-has-links".into())
                }
            }
            k => (Pred::Err, k.to_string()),
        },
        Op::Merge { other, rename } => {
            let o = &t.others[*other as usize].1;
            let mine = m.ids();
            let overlap: Vec<Id> = o.ids().into_iter().filter(|i| mine.contains(i)).collect();
            let conflicts = overlap.iter().filter(|i| m.get(i) != o.get(i)).count();
            if *rename {
                (Pred::Ok, format!("conflicts={},identical={}", conflicts.min(2), (overlap.len() - conflicts).min(2)))
            } else if conflicts > 0 {
                (Pred::Err, "conflict".into())
            } else if overlap.is_empty() {
                (Pred::Ok, "disjoint".into())
            } else {
                (Pred::Open, "identical-overlap".into())
            }
        }
    }
}

/// what the implementation returned from one operation
enum Ret {
    Unit,
    Policy(Policy),
    Template(Template),
    Renaming(Vec<(Id, Id)>),
}

/// model effect of a SUCCESSFUL operation. For `merge` the renaming returned by the
/// implementation is validated (injective, fresh, only conflicting ids, covers every conflict)
/// and result = self ∪ r(other). Err = list of (fingerprint, description).
fn apply_ok(m: &PsModel, op: &Op, ret: &Ret, t: &Tables) -> Result<PsModel, Vec<(String, String)>> {
    let mut n = m.clone();
    match op {
        Op::Init(_) | Op::AddLinked { .. } => {}
        Op::Add { body, id } => {
            n.statics.insert(id.clone(), *body);
        }
        Op::AddTemplate { body, id } => {
            n.templates.insert(id.clone(), *body);
        }
        Op::Link { tid, new, bind } => {
            n.links.insert(new.clone(), (tid.clone(), bind.clone()));
        }
        Op::Unlink(id) => {
            n.links.remove(id);
        }
        Op::RemoveStatic(id) => {
            n.statics.remove(id);
        }
        Op::RemoveTemplate(id) => {
            n.templates.remove(id);
        }
        Op::Merge { other, rename } => {
            let o = &t.others[*other as usize].1;
            let empty = vec![];
            let r: &Vec<(Id, Id)> = match ret {
                Ret::Renaming(r) => r,
                _ => &empty,
            };
            let mut bad = vec![];
            let mine = m.ids();
            let theirs = o.ids();
            if !*rename && !r.is_empty() {
                bad.push(("merge:renaming-without-rename".to_string(), format!("merge(rename_duplicates=false) returned a non-empty renaming {r:?}")));
            }
            let mut seen_new = BTreeSet::new();
            for (old, new) in r {
                if !theirs.contains(old) {
                    bad.push(("merge:renaming-key-not-in-other".to_string(), format!("renaming key {old} is not an id of the other set")));
                } else if !mine.contains(old) {
                    bad.push(("merge:renamed-nonconflicting-id".to_string(), format!("{old} was renamed to {new} although this set does not use {old}")));
                }
                if !seen_new.insert(new.clone()) {
                    bad.push(("merge:renaming-not-injective".to_string(), format!("two ids are renamed to {new}: {r:?}")));
                }
                if mine.contains(new) || theirs.contains(new) {
                    bad.push(("merge:renaming-not-fresh".to_string(), format!("{old} is renamed to {new}, which is already used (self ids {mine:?}, other ids {theirs:?})")));
                }
            }
            let rmap: BTreeMap<&Id, &Id> = r.iter().map(|(a, b)| (a, b)).collect();
            let rn = |i: &Id| -> Id { rmap.get(i).map(|x| (*x).clone()).unwrap_or_else(|| i.clone()) };
            for (id, e) in o.entries() {
                let e2 = match e {
                    Entry::Link(tid, b) => Entry::Link(rn(&tid), b),
                    x => x,
                };
                let id2 = rn(&id);
                match n.get(&id2) {
                    None => n.insert(id2, e2),
                    Some(cur) if cur == e2 => {}
                    Some(cur) => bad.push((
                        format!("merge:conflict-not-renamed:{}-x-{}", cur.kind(), e2.kind()),
                        format!("id {id2} is {cur:?} in this set and {e2:?} in the (renamed) other set, and the renaming {r:?} does not separate them"),
                    )),
                }
            }
            if !bad.is_empty() {
                return Err(bad);
            }
        }
    }
    Ok(n)
}

// ---------------------------------------------------------------------------------------
// tables: pre-built API objects
// ---------------------------------------------------------------------------------------

pub struct Tables {
    tier: Tier,
    pool: Vec<Id>,
    sbodies: Vec<Pol>,
    tbodies: Vec<Pol>,
    binds: Vec<Bind>,
    /// (body, id) -> parsed object, for pool ids
    statics: HashMap<(u8, Id), Policy>,
    templates: HashMap<(u8, Id), Template>,
    linked_objs: HashMap<Id, Policy>,
    others: Vec<(PolicySet, PsModel)>,
    inits: Vec<(PolicySet, PsModel)>,
    reqs: Vec<(Req, Request)>,
    store: Store,
    entities: Entities,
    /// parsed static policies by (id, text)
    parse_cache: RwLock<HashMap<(Id, String), Policy>>,
}

fn my_reqs() -> Vec<Req> {
    let ctx = |n: i64| -> BTreeMap<String, Val> {
        let mut c = BTreeMap::new();
        c.insert("n".to_string(), Val::Long(n));
        c
    };
    vec![
        req1(),
        req2(),
        req3(),
        Req { principal: ua(), action: edit(), resource: dd(), context: ctx(0) },
        Req { principal: gg(), action: edit(), resource: dd(), context: ctx(0) },
        Req { principal: gg(), action: view(), resource: dd(), context: ctx(0) },
        Req { principal: ua(), action: edit(), resource: gg(), context: ctx(0) },
    ]
}

fn text_of(body: &Pol) -> String {
    body.text(&Style::default())
}

/// failure while building the fixed objects: `Some(fingerprint)` = an API call that must
/// succeed by the documentation failed (a verdict), `None` = harness error
type TErr = (Option<&'static str>, String);

fn imp(fp: &'static str, msg: String) -> TErr {
    (Some(fp), msg)
}

fn build_set(ops: &[Op], t: &Tables) -> Result<(PolicySet, PsModel), TErr> {
    let mut s = PolicySet::new();
    let mut m = PsModel::default();
    for op in ops {
        let (p, why) = predict(&m, op, t);
        if p != Pred::Ok {
            return Err((None, format!("fixed set {}: {} is predicted {p:?} ({why})", show_hist(ops), op.show())));
        }
        let ret = exec(&mut s, op, t).map_err(|e| imp("fixed:operand-set", format!("building the fixed set {}: {} failed although its documented preconditions hold: {e}", show_hist(ops), op.show())))?;
        m = apply_ok(&m, op, &ret, t).map_err(|b| (None, format!("{b:?}")))?;
    }
    Ok((s, m))
}

impl Tables {
    fn new(tier: Tier) -> Result<Tables, TErr> {
        let store = store1();
        let mut t = Tables {
            tier,
            pool: pool(tier),
            sbodies: static_bodies(),
            tbodies: template_bodies(),
            binds: all_binds(),
            statics: HashMap::new(),
            templates: HashMap::new(),
            linked_objs: HashMap::new(),
            others: vec![],
            inits: vec![],
            reqs: my_reqs().into_iter().map(|r| (r.clone(), c_request(&r))).collect(),
            entities: c_entities(&store),
            store,
            parse_cache: RwLock::new(HashMap::new()),
        };
        // objects for every id that a fixed set or the op alphabet may use
        let ids: Vec<Id> = (0..5).map(pid).collect();
        let (sb, tbs) = (t.sbodies.clone(), t.tbodies.clone());
        for id in &ids {
            for (b, body) in sb.iter().enumerate() {
                let p = Policy::parse(Some(PolicyId::new(id)), text_of(body)).map_err(|e| imp("fixed:parse-static", format!("static body S{b} `{}` does not parse: {e}", text_of(body))))?;
                t.statics.insert((b as u8, id.clone()), p);
            }
            for (b, body) in tbs.iter().enumerate() {
                let p = Template::parse(Some(PolicyId::new(id)), text_of(body)).map_err(|e| imp("fixed:parse-template", format!("template body T{b} `{}` does not parse: {e}", text_of(body))))?;
                t.templates.insert((b as u8, id.clone()), p);
            }
        }
        // template-linked Policy objects (taken out of an auxiliary set)
        for id in &ids {
            let mut aux = PolicySet::new();
            let tpl = Template::parse(Some(PolicyId::new("aux_template")), text_of(&t.tbodies[0])).map_err(|e| imp("fixed:parse-template", e.to_string()))?;
            aux.add_template(tpl).map_err(|e| imp("fixed:aux-link", format!("add_template on an empty set failed: {e}")))?;
            aux.link(PolicyId::new("aux_template"), PolicyId::new(id), Bind { p: Some(ua()), r: None }.to_api()).map_err(|e| imp("fixed:aux-link", format!("link(T0, {{?principal}}) on a fresh set failed: {e}")))?;
            let p = aux.policy(&PolicyId::new(id)).ok_or_else(|| imp("fixed:aux-link", "policy(id) is None right after link(.., id, ..) succeeded".to_string()))?.clone();
            t.linked_objs.insert(id.clone(), p);
        }
        // merge operands: chosen so that, against the explored states, every kind x kind
        // collision (same / different content) occurs on policy0 and policy1
        let b = |p: Option<Uid>, r: Option<Uid>| Bind { p, r };
        let mut others: Vec<Vec<Op>> = vec![
            vec![Op::Add { body: 0, id: pid(0) }, Op::Add { body: 1, id: pid(1) }],
            vec![Op::AddTemplate { body: 0, id: pid(0) }, Op::Link { tid: pid(0), new: pid(1), bind: b(Some(ua()), None) }],
            vec![Op::AddTemplate { body: 0, id: pid(1) }, Op::Link { tid: pid(1), new: pid(0), bind: b(Some(gg()), None) }],
            vec![Op::AddTemplate { body: 1, id: pid(0) }, Op::Add { body: 0, id: pid(1) }],
        ];
        if tier == Tier::Thorough {
            others.push(vec![
                Op::AddTemplate { body: 0, id: pid(0) },
                Op::Link { tid: pid(0), new: pid(1), bind: b(Some(ua()), None) },
                Op::Link { tid: pid(0), new: pid(2), bind: b(Some(gg()), None) },
            ]);
        }
        for ops in &others {
            let x = build_set(ops, &t)?;
            t.others.push(x);
        }
        // initial sets: empty; text-built (from_str numbers the statements policy0, policy1) + link;
        // JSON-built with templateLinks
        t.inits.push((PolicySet::new(), PsModel::default()));
        {
            let src = format!("{}\n{}\n", text_of(&t.sbodies[0]), text_of(&t.tbodies[1]));
            let mut s: PolicySet = src.parse().map_err(|e| imp("fixed:init-from-str", format!("PolicySet::from_str rejects `{src}`: {e}")))?;
            let bind = b(Some(gg()), Some(gg()));
            s.link(PolicyId::new(pid(1)), PolicyId::new(pid(2)), bind.to_api()).map_err(|e| imp("fixed:init-link", format!("after from_str(S0; T1): link(policy1, policy2, {}) failed although exactly the template's slots are bound: {e}", bind.show())))?;
            let mut m = PsModel::default();
            m.statics.insert(pid(0), 0);
            m.templates.insert(pid(1), 1);
            m.links.insert(pid(2), (pid(1), bind));
            t.inits.push((s, m));
        }
        {
            let b0 = b(Some(ua()), None);
            let b1 = b(Some(gg()), Some(gg()));
            let vals = |bd: &Bind| -> J { J::Object(bd.as_map().into_iter().map(|(k, u)| (k, refsem::print::uid_json(&u))).collect()) };
            let obj = |v: Vec<(Id, J)>| -> J { J::Object(v.into_iter().collect()) };
            let doc = json!({
                "templates": obj(vec![(pid(0), t.tbodies[0].est()), (pid(3), t.tbodies[2].est())]),
                "staticPolicies": obj(vec![(pid(1), t.sbodies[1].est())]),
                "templateLinks": [
                    {"templateId": pid(0), "newId": pid(2), "values": vals(&b0)},
                    {"templateId": pid(3), "newId": pid(4), "values": vals(&b1)},
                ],
            });
            let s = PolicySet::from_json_value(doc.clone()).map_err(|e| imp("fixed:init-from-json", format!("PolicySet::from_json_value rejects {doc}: {e}")))?;
            let mut m = PsModel::default();
            m.templates.insert(pid(0), 0);
            m.templates.insert(pid(3), 2);
            m.statics.insert(pid(1), 1);
            m.links.insert(pid(2), (pid(0), b0));
            m.links.insert(pid(4), (pid(3), b1));
            t.inits.push((s, m));
        }
        for (_, m) in t.inits.iter().chain(t.others.iter()) {
            m.well_formed().map_err(|e| (None, e))?;
        }
        Ok(t)
    }

    fn static_obj(&self, body: u8, id: &str) -> Policy {
        match self.statics.get(&(body, id.to_string())) {
            Some(p) => p.clone(),
            None => self.parsed(id, &text_of(&self.sbodies[body as usize])).expect("static body parses"),
        }
    }

    /// `Policy::parse(Some(id), text)`, memoised
    fn parsed(&self, id: &str, text: &str) -> Result<Policy, String> {
        let key = (id.to_string(), text.to_string());
        if let Some(p) = self.parse_cache.read().unwrap().get(&key) {
            return Ok(p.clone());
        }
        let p = Policy::parse(Some(PolicyId::new(id)), text).map_err(|e| e.to_string())?;
        self.parse_cache.write().unwrap().insert(key, p.clone());
        Ok(p)
    }
}

/// one call of the real API
fn exec(s: &mut PolicySet, op: &Op, t: &Tables) -> Result<Ret, String> {
    let e = |x: cedar_policy::PolicySetError| x.to_string();
    match op {
        Op::Init(_) => Ok(Ret::Unit),
        Op::Add { body, id } => s.add(t.static_obj(*body, id)).map(|_| Ret::Unit).map_err(e),
        Op::AddLinked { id } => s.add(t.linked_objs[id].clone()).map(|_| Ret::Unit).map_err(e),
        Op::AddTemplate { body, id } => s.add_template(t.templates[&(*body, id.clone())].clone()).map(|_| Ret::Unit).map_err(e),
        Op::Link { tid, new, bind } => s.link(PolicyId::new(tid), PolicyId::new(new), bind.to_api()).map(|_| Ret::Unit).map_err(e),
        Op::Unlink(id) => s.unlink(PolicyId::new(id)).map(Ret::Policy).map_err(e),
        Op::RemoveStatic(id) => s.remove_static(PolicyId::new(id)).map(Ret::Policy).map_err(e),
        Op::RemoveTemplate(id) => s.remove_template(PolicyId::new(id)).map(Ret::Template).map_err(e),
        Op::Merge { other, rename } => s
            .merge(&t.others[*other as usize].0, *rename)
            .map(|r| {
                let mut v: Vec<(Id, Id)> = r.iter().map(|(a, b)| (pid_str(a), pid_str(b))).collect();
                v.sort();
                Ret::Renaming(v)
            })
            .map_err(e),
    }
}

fn pid_str(p: &PolicyId) -> Id {
    AsRef::<str>::as_ref(p).to_string()
}

/// rebuild the real object of a history (results are not looked at: they were compared when
/// the history was explored)
fn rebuild(hist: &[Op], t: &Tables) -> PolicySet {
    let mut s = match hist.first() {
        Some(Op::Init(k)) => t.inits[*k as usize].0.clone(),
        _ => PolicySet::new(),
    };
    for op in hist.iter().skip(1) {
        let _ = exec(&mut s, op, t);
    }
    s
}

// ---------------------------------------------------------------------------------------
// canonical form read back from the implementation
// ---------------------------------------------------------------------------------------

#[derive(Clone, Debug, PartialEq, Eq, Hash)]
struct PolObs {
    is_static: bool,
    tid: Option<Id>,
    bind: BTreeMap<String, Uid>,
    effect: Effect,
    ann: Vec<(String, String)>,
    principal: PR,
    action: AS,
    resource: PR,
    nonscope: bool,
}

#[derive(Clone, Debug, PartialEq, Eq, Hash)]
struct TplObs {
    slots: BTreeSet<String>,
    effect: Effect,
    ann: Vec<(String, String)>,
    principal: PR,
    action: AS,
    resource: PR,
    nonscope: bool,
}

#[derive(Clone, Debug, PartialEq, Eq, Hash, Default)]
struct Obs {
    pols: BTreeMap<Id, PolObs>,
    tpls: BTreeMap<Id, TplObs>,
    /// get_linked_policies(id) for every probed id: None = Err
    linked: BTreeMap<Id, Option<BTreeSet<Id>>>,
    n_pol: usize,
    n_tpl: usize,
    empty: bool,
    /// core level: links (id -> is_static, template id), all template bodies, slotful templates
    ast_links: BTreeMap<Id, (bool, Id)>,
    ast_templates: BTreeSet<Id>,
    ast_slotful: BTreeSet<Id>,
}

fn abs_effect(e: cedar_policy::Effect) -> Effect {
    match e {
        cedar_policy::Effect::Permit => Effect::Permit,
        cedar_policy::Effect::Forbid => Effect::Forbid,
    }
}

fn api_uid(u: &EntityUid) -> Uid {
    abs_uid(u.as_ref())
}

fn abs_ac(a: cedar_policy::ActionConstraint) -> AS {
    match a {
        cedar_policy::ActionConstraint::Any => AS::Any,
        cedar_policy::ActionConstraint::Eq(u) => AS::Eq(api_uid(&u)),
        cedar_policy::ActionConstraint::In(v) => AS::InList(v.iter().map(api_uid).collect()),
    }
}

fn norm_as(a: &AS) -> AS {
    match a {
        AS::In(u) => AS::InList(vec![u.clone()]),
        x => x.clone(),
    }
}

fn opt_ref(u: &Option<EntityUid>) -> Ref {
    match u {
        Some(u) => Ref::Uid(api_uid(u)),
        None => Ref::Slot,
    }
}

fn sorted_ann<'a>(it: impl Iterator<Item = (&'a str, &'a str)>) -> Vec<(String, String)> {
    let mut v: Vec<(String, String)> = it.map(|(k, v)| (k.to_string(), v.to_string())).collect();
    v.sort();
    v
}

fn obs_policy(p: &Policy) -> PolObs {
    use cedar_policy::{PrincipalConstraint as PC, ResourceConstraint as RC};
    PolObs {
        is_static: p.is_static(),
        tid: p.template_id().map(pid_str),
        bind: p.template_links().map(|m| m.iter().map(|(k, v)| (k.to_string(), api_uid(v))).collect()).unwrap_or_default(),
        effect: abs_effect(p.effect()),
        ann: sorted_ann(p.annotations()),
        principal: match p.principal_constraint() {
            PC::Any => PR::Any,
            PC::In(u) => PR::In(Ref::Uid(api_uid(&u))),
            PC::Eq(u) => PR::Eq(Ref::Uid(api_uid(&u))),
            PC::Is(t) => PR::Is(t.to_string()),
            PC::IsIn(t, u) => PR::IsIn(t.to_string(), Ref::Uid(api_uid(&u))),
        },
        action: abs_ac(p.action_constraint()),
        resource: match p.resource_constraint() {
            RC::Any => PR::Any,
            RC::In(u) => PR::In(Ref::Uid(api_uid(&u))),
            RC::Eq(u) => PR::Eq(Ref::Uid(api_uid(&u))),
            RC::Is(t) => PR::Is(t.to_string()),
            RC::IsIn(t, u) => PR::IsIn(t.to_string(), Ref::Uid(api_uid(&u))),
        },
        nonscope: p.has_non_scope_constraint(),
    }
}

fn obs_template(p: &Template) -> TplObs {
    use cedar_policy::{TemplatePrincipalConstraint as PC, TemplateResourceConstraint as RC};
    TplObs {
        slots: p.slots().map(|s| s.to_string()).collect(),
        effect: abs_effect(p.effect()),
        ann: sorted_ann(p.annotations()),
        principal: match p.principal_constraint() {
            PC::Any => PR::Any,
            PC::In(u) => PR::In(opt_ref(&u)),
            PC::Eq(u) => PR::Eq(opt_ref(&u)),
            PC::Is(t) => PR::Is(t.to_string()),
            PC::IsIn(t, u) => PR::IsIn(t.to_string(), opt_ref(&u)),
        },
        action: abs_ac(p.action_constraint()),
        resource: match p.resource_constraint() {
            RC::Any => PR::Any,
            RC::In(u) => PR::In(opt_ref(&u)),
            RC::Eq(u) => PR::Eq(opt_ref(&u)),
            RC::Is(t) => PR::Is(t.to_string()),
            RC::IsIn(t, u) => PR::IsIn(t.to_string(), opt_ref(&u)),
        },
        nonscope: p.has_non_scope_constraint(),
    }
}

/// read the whole observable state back; `problems` = internal inconsistencies of the read-back
/// itself (iteration vs lookup, API mirror vs core maps)
fn observe(s: &PolicySet, probes: &BTreeSet<Id>) -> (Obs, Vec<(String, String)>) {
    let mut o = Obs::default();
    let mut bad = vec![];
    for p in s.policies() {
        let id = pid_str(p.id());
        if o.pols.insert(id.clone(), obs_policy(p)).is_some() {
            bad.push(("read:policies-duplicate-id".to_string(), format!("policies() yields id {id} twice")));
        }
    }
    for t in s.templates() {
        let id = pid_str(t.id());
        if o.tpls.insert(id.clone(), obs_template(t)).is_some() {
            bad.push(("read:templates-duplicate-id".to_string(), format!("templates() yields id {id} twice")));
        }
    }
    let all: BTreeSet<Id> = probes.iter().cloned().chain(o.pols.keys().cloned()).chain(o.tpls.keys().cloned()).collect();
    for id in &all {
        let got = s.policy(&PolicyId::new(id)).map(|p| (pid_str(p.id()), obs_policy(p)));
        let want = o.pols.get(id).map(|x| (id.clone(), x.clone()));
        if got != want {
            bad.push(("read:policy-lookup".to_string(), format!("policy({id}) = {got:?} but policies() has {want:?}")));
        }
        let got = s.template(&PolicyId::new(id)).map(|p| (pid_str(p.id()), obs_template(p)));
        let want = o.tpls.get(id).map(|x| (id.clone(), x.clone()));
        if got != want {
            bad.push(("read:template-lookup".to_string(), format!("template({id}) = {got:?} but templates() has {want:?}")));
        }
        let l = match s.get_linked_policies(PolicyId::new(id)) {
            Ok(it) => {
                let v: Vec<Id> = it.map(pid_str).collect();
                let set: BTreeSet<Id> = v.iter().cloned().collect();
                if set.len() != v.len() {
                    bad.push(("read:linked-duplicate".to_string(), format!("get_linked_policies({id}) yields an id twice: {v:?}")));
                }
                Some(set)
            }
            Err(_) => None,
        };
        o.linked.insert(id.clone(), l);
    }
    o.n_pol = s.num_of_policies();
    o.n_tpl = s.num_of_templates();
    o.empty = s.is_empty();
    let a: &ast::PolicySet = s.as_ref();
    for p in a.policies() {
        let id: &str = p.id().as_ref();
        let tid: &str = p.template().id().as_ref();
        if o.ast_links.insert(id.to_string(), (p.is_static(), tid.to_string())).is_some() {
            bad.push(("read:core-duplicate-id".to_string(), format!("core policies() yields id {id} twice")));
        }
    }
    for t in a.all_templates() {
        let id: &str = t.id().as_ref();
        o.ast_templates.insert(id.to_string());
    }
    for t in a.templates() {
        let id: &str = t.id().as_ref();
        o.ast_slotful.insert(id.to_string());
    }
    // API mirror maps vs core maps
    let api_links: BTreeMap<Id, (bool, Id)> = o.pols.iter().map(|(i, p)| (i.clone(), (p.is_static, p.tid.clone().unwrap_or_else(|| i.clone())))).collect();
    if api_links != o.ast_links {
        bad.push(("mirror:policies".to_string(), format!("API policies {api_links:?} differ from the core policy set's {:?}", o.ast_links)));
    }
    let api_tpls: BTreeSet<Id> = o.tpls.keys().cloned().collect();
    if api_tpls != o.ast_slotful {
        bad.push(("mirror:templates".to_string(), format!("API templates {api_tpls:?} differ from the core policy set's {:?}", o.ast_slotful)));
    }
    (o, bad)
}

/// hash of the canonical form (probe answers only for `keep` ids, so that the hash does not
/// depend on the path by which the state was reached)
fn canon_hash(o: &Obs, keep: &BTreeSet<Id>) -> u64 {
    let mut h = std::collections::hash_map::DefaultHasher::new();
    o.pols.hash(&mut h);
    o.tpls.hash(&mut h);
    for (k, v) in &o.linked {
        if keep.contains(k) {
            k.hash(&mut h);
            v.hash(&mut h);
        }
    }
    (o.n_pol, o.n_tpl, o.empty).hash(&mut h);
    o.ast_links.hash(&mut h);
    o.ast_templates.hash(&mut h);
    o.ast_slotful.hash(&mut h);
    h.finish()
}

/// short description of what differs between two read-backs
fn diff_obs(a: &Obs, b: &Obs) -> String {
    let mut v = vec![];
    fn map_diff<T: PartialEq + std::fmt::Debug>(name: &str, a: &BTreeMap<Id, T>, b: &BTreeMap<Id, T>, v: &mut Vec<String>) {
        let keys: BTreeSet<&Id> = a.keys().chain(b.keys()).collect();
        for k in keys {
            if a.get(k) != b.get(k) {
                v.push(format!("{name}[{k}]: {:?} -> {:?}", a.get(k), b.get(k)));
            }
        }
    }
    map_diff("policies()", &a.pols, &b.pols, &mut v);
    map_diff("templates()", &a.tpls, &b.tpls, &mut v);
    map_diff("get_linked_policies", &a.linked, &b.linked, &mut v);
    map_diff("core policies", &a.ast_links, &b.ast_links, &mut v);
    if (a.n_pol, a.n_tpl, a.empty) != (b.n_pol, b.n_tpl, b.empty) {
        v.push(format!("num_of_policies/num_of_templates/is_empty: {:?} -> {:?}", (a.n_pol, a.n_tpl, a.empty), (b.n_pol, b.n_tpl, b.empty)));
    }
    if a.ast_templates != b.ast_templates {
        v.push(format!("core bodies: {:?} -> {:?}", a.ast_templates, b.ast_templates));
    }
    if a.ast_slotful != b.ast_slotful {
        v.push(format!("core templates: {:?} -> {:?}", a.ast_slotful, b.ast_slotful));
    }
    v.join("; ")
}

fn ann_of(b: &Pol) -> Vec<(String, String)> {
    let mut v: Vec<(String, String)> = b.annotations.iter().map(|(k, v)| (k.clone(), v.clone().unwrap_or_default())).collect();
    v.sort();
    v
}

/// compare the read-back with the reference model: policies()/templates()/policy(id)/
/// template(id)/get_linked_policies/num_* = model, no id shared, no orphan link; a link's effect
/// and annotations are its template's and its scope is the template's with the entity written
/// in place of each slot
fn compare(o: &Obs, m: &PsModel, t: &Tables) -> Vec<(String, String)> {
    let mut bad = vec![];
    let mut want_p: BTreeMap<Id, PolObs> = BTreeMap::new();
    for (id, b) in &m.statics {
        let body = &t.sbodies[*b as usize];
        want_p.insert(
            id.clone(),
            PolObs {
                is_static: true,
                tid: None,
                bind: BTreeMap::new(),
                effect: body.effect,
                ann: ann_of(body),
                principal: body.principal.clone(),
                action: norm_as(&body.action),
                resource: body.resource.clone(),
                nonscope: !body.conds.is_empty(),
            },
        );
    }
    for (id, (tid, bind)) in &m.links {
        let body = &t.tbodies[m.templates[tid] as usize];
        let sub = body.substitute(id, bind.p.as_ref(), bind.r.as_ref());
        want_p.insert(
            id.clone(),
            PolObs {
                is_static: false,
                tid: Some(tid.clone()),
                bind: bind.as_map(),
                effect: body.effect,
                ann: ann_of(body),
                principal: sub.principal.clone(),
                action: norm_as(&sub.action),
                resource: sub.resource.clone(),
                nonscope: !body.conds.is_empty(),
            },
        );
    }
    let mut want_t: BTreeMap<Id, TplObs> = BTreeMap::new();
    for (id, b) in &m.templates {
        let body = &t.tbodies[*b as usize];
        let mut slots = BTreeSet::new();
        if body.principal_slot() {
            slots.insert("?principal".to_string());
        }
        if body.resource_slot() {
            slots.insert("?resource".to_string());
        }
        want_t.insert(
            id.clone(),
            TplObs {
                slots,
                effect: body.effect,
                ann: ann_of(body),
                principal: body.principal.clone(),
                action: norm_as(&body.action),
                resource: body.resource.clone(),
                nonscope: !body.conds.is_empty(),
            },
        );
    }
    let ids_p: BTreeSet<&Id> = o.pols.keys().collect();
    let ids_wp: BTreeSet<&Id> = want_p.keys().collect();
    if ids_p != ids_wp {
        bad.push(("state:policy-ids".to_string(), format!("policies() has ids {ids_p:?}, the operations imply {ids_wp:?}")));
    } else {
        for (id, w) in &want_p {
            let g = &o.pols[id];
            if g != w {
                let what = if g.is_static != w.is_static || g.tid != w.tid {
                    "kind"
                } else if g.bind != w.bind {
                    "bindings"
                } else if g.effect != w.effect {
                    "effect"
                } else if g.ann != w.ann {
                    "annotations"
                } else {
                    "scope"
                };
                bad.push((format!("state:policy-{what}"), format!("policy {id} reads back as {g:?}, expected {w:?}")));
            }
        }
    }
    let ids_t: BTreeSet<&Id> = o.tpls.keys().collect();
    let ids_wt: BTreeSet<&Id> = want_t.keys().collect();
    if ids_t != ids_wt {
        bad.push(("state:template-ids".to_string(), format!("templates() has ids {ids_t:?}, the operations imply {ids_wt:?}")));
    } else {
        for (id, w) in &want_t {
            if &o.tpls[id] != w {
                bad.push(("state:template-content".to_string(), format!("template {id} reads back as {:?}, expected {w:?}", o.tpls[id])));
            }
        }
    }
    // no id shared between policies and templates
    for id in ids_p.intersection(&ids_t) {
        bad.push(("state:id-shared".to_string(), format!("id {id} is both a policy and a template")));
    }
    // get_linked_policies: exact for templates; nothing may be linked to an id that is not in the set
    let in_set = m.ids();
    for (id, l) in &o.linked {
        if m.templates.contains_key(id) {
            let want = m.links_of(id);
            if l.as_ref() != Some(&want) {
                bad.push(("state:linked-policies".to_string(), format!("get_linked_policies({id}) = {l:?}, expected {want:?}")));
            }
        } else if !in_set.contains(id) {
            if let Some(s) = l {
                if !s.is_empty() {
                    bad.push(("state:links-of-absent-id".to_string(), format!("get_linked_policies({id}) = {s:?} although {id} is not in the set")));
                }
            }
        }
    }
    // no orphan link (read-back only)
    for (id, p) in &o.pols {
        if let Some(tid) = &p.tid {
            if !o.tpls.contains_key(tid) {
                bad.push(("state:orphan-link".to_string(), format!("link {id} refers to template {tid}, which templates() does not have")));
            }
        }
    }
    if o.n_pol != want_p.len() || o.n_tpl != want_t.len() || o.empty != m.is_empty() {
        bad.push((
            "state:counts".to_string(),
            format!("num_of_policies={} num_of_templates={} is_empty={}, expected {} {} {}", o.n_pol, o.n_tpl, o.empty, want_p.len(), want_t.len(), m.is_empty()),
        ));
    }
    // core maps: every body id is a template or a static policy, nothing else is kept
    let want_bodies: BTreeSet<Id> = m.templates.keys().chain(m.statics.keys()).cloned().collect();
    if o.ast_templates != want_bodies {
        bad.push(("state:core-leaked-body".to_string(), format!("core policy set keeps bodies {:?}, the operations imply {want_bodies:?}", o.ast_templates)));
    }
    bad
}

// ---------------------------------------------------------------------------------------
// state-level oracle: authorization = reference authorizer over textually substituted statics
// ---------------------------------------------------------------------------------------

fn insts_of(m: &PsModel, t: &Tables) -> (Vec<Inst>, Vec<Inst>) {
    let mut subst = vec![];
    let mut slotted = vec![];
    for (id, b) in &m.statics {
        let mut p = t.sbodies[*b as usize].clone();
        p.id = id.clone();
        subst.push(Inst::stat(p.clone()));
        slotted.push(Inst::stat(p));
    }
    for (id, (tid, bind)) in &m.links {
        let body = &t.tbodies[m.templates[tid] as usize];
        subst.push(Inst::stat(body.substitute(id, bind.p.as_ref(), bind.r.as_ref())));
        let mut p = body.clone();
        p.id = id.clone();
        slotted.push(Inst { id: id.clone(), pol: p, slot_principal: bind.p.clone(), slot_resource: bind.r.clone() });
    }
    (subst, slotted)
}

static MACHINERY: AtomicBool = AtomicBool::new(false);
static MACHINERY_MSG: Mutex<Vec<String>> = Mutex::new(Vec::new());

fn machinery(msg: String) {
    MACHINERY.store(true, Ordering::SeqCst);
    let mut v = MACHINERY_MSG.lock().unwrap();
    if v.len() < 10 {
        v.push(msg);
    }
}

/// returns problems and the number of compared implementation calls
fn state_check(s: &PolicySet, m: &PsModel, t: &Tables) -> (Vec<(String, String)>, u64) {
    let mut bad = vec![];
    let mut calls = 0;
    let (subst, slotted) = insts_of(m, t);
    // the all-static set: every link replaced by the printed substitution, parsed by cedar
    let mut sset = PolicySet::new();
    for i in &subst {
        let text = i.pol.text(&Style::default());
        match t.parsed(&i.id, &text) {
            Ok(p) => {
                if let Err(e) = sset.add(p) {
                    machinery(format!("substituted set: add {} failed: {e}", i.id));
                    return (bad, calls);
                }
            }
            Err(e) => {
                bad.push(("gen:substituted-text-rejected".to_string(), format!("substituted policy text rejected: {text}: {e}")));
                return (bad, calls);
            }
        }
    }
    let auth = Authorizer::new();
    let kinds = |ids: &BTreeSet<String>| -> String {
        let mut k: BTreeSet<&str> = BTreeSet::new();
        for i in ids {
            k.insert(m.kind(i));
        }
        k.into_iter().collect::<Vec<_>>().join("+")
    };
    for (qi, (rq, cq)) in t.reqs.iter().enumerate() {
        let want = refsem::authorize(&subst, rq, &t.store);
        let want2 = refsem::authorize(&slotted, rq, &t.store);
        if want != want2 {
            machinery(format!("reference authorizer: substituted {want:?} != slot-environment {want2:?} on {}", m.show()));
        }
        let got: Resp = abs_response(&auth.is_authorized(cq, s, &t.entities));
        let got_s: Resp = abs_response(&auth.is_authorized(cq, &sset, &t.entities));
        calls += 2;
        if got != got_s {
            let diff: BTreeSet<String> = got.reasons.symmetric_difference(&got_s.reasons).chain(got.errors.symmetric_difference(&got_s.errors)).cloned().collect();
            bad.push((
                format!("authz:link-vs-substitution:{}", kinds(&diff)),
                format!("request #{qi}: the set with links answers {got:?}, the set with each link replaced by its substituted static policy answers {got_s:?}; set {}", m.show()),
            ));
        }
        if got != want {
            let diff: BTreeSet<String> = got.reasons.symmetric_difference(&want.reasons).chain(got.errors.symmetric_difference(&want.errors)).cloned().collect();
            bad.push((format!("authz:vs-reference:{}", kinds(&diff)), format!("request #{qi}: implementation answers {got:?}, reference authorizer over the implied policies answers {want:?}; set {}", m.show())));
        }
    }
    (bad, calls)
}

// ---------------------------------------------------------------------------------------
// one checked step (shared by the explorer and by replay)
// ---------------------------------------------------------------------------------------

struct Step {
    /// canonical hash of the state the operation was applied to
    before: u64,
    problems: Vec<(String, String)>,
    model: PsModel,
    class: String,
    canon: u64,
    calls: u64,
}

fn check_returned(op: &Op, ret: &Ret, m: &PsModel, t: &Tables) -> Vec<(String, String)> {
    let mut bad = vec![];
    match (op, ret) {
        (Op::Unlink(id), Ret::Policy(p)) => {
            let o = obs_policy(p);
            let (tid, bind) = &m.links[id];
            if pid_str(p.id()) != *id || o.is_static || o.tid.as_ref() != Some(tid) || o.bind != bind.as_map() {
                bad.push(("returned:unlink".to_string(), format!("unlink({id}) returned policy {} {o:?}, expected the link {id} -> {tid} {}", pid_str(p.id()), bind.show())));
            }
        }
        (Op::RemoveStatic(id), Ret::Policy(p)) => {
            if pid_str(p.id()) != *id || !p.is_static() {
                bad.push(("returned:remove_static".to_string(), format!("remove_static({id}) returned policy {} static={}", pid_str(p.id()), p.is_static())));
            }
        }
        (Op::RemoveTemplate(id), Ret::Template(p)) => {
            let o = obs_template(p);
            let body = &t.tbodies[m.templates[id] as usize];
            if pid_str(p.id()) != *id || o.effect != body.effect || o.principal != body.principal || o.resource != body.resource {
                bad.push(("returned:remove_template".to_string(), format!("remove_template({id}) returned template {} {o:?}", pid_str(p.id()))));
            }
        }
        _ => {}
    }
    bad
}

/// apply `op` to the real object `s` (whose reference model is `m`), compare everything
fn check_step(s: &mut PolicySet, m: &PsModel, op: &Op, t: &Tables) -> Step {
    let mut problems = vec![];
    let mut calls = 1;
    let (pred, why) = predict(m, op, t);
    let mut probes: BTreeSet<Id> = t.pool.iter().cloned().collect();
    probes.extend(m.ids());
    let (before, _) = observe(s, &probes);
    let before_canon = canon_hash(&before, &probes);
    let res = exec(s, op, t);
    let outcome = if res.is_ok() { "ok" } else { "err" };
    let class = format!("{}:{}:{}{}", op.name(), outcome, if pred == Pred::Open { "open:" } else { "" }, why);
    match (pred, &res) {
        (Pred::Ok, Err(e)) => problems.push((format!("{}:expected-ok-got-err:{why}", op.name()), format!("{} on {} failed ({e}); every documented precondition holds ({why})", op.show(), m.show()))),
        (Pred::Err, Ok(_)) => problems.push((format!("{}:expected-err-got-ok:{why}", op.name()), format!("{} on {} succeeded; it must be refused ({why})", op.show(), m.show()))),
        _ => {}
    }
    let model = match &res {
        Err(_) => m.clone(),
        Ok(ret) => {
            if pred != Pred::Err {
                problems.extend(check_returned(op, ret, m, t));
            }
            match apply_ok(m, op, ret, t) {
                Ok(n) => n,
                Err(b) => {
                    problems.extend(b.into_iter().map(|(fp, what)| (fp, format!("{} on {}: {what}", op.show(), m.show()))));
                    m.clone()
                }
            }
        }
    };
    let mut keep: BTreeSet<Id> = t.pool.iter().cloned().collect();
    keep.extend(model.ids());
    probes.extend(model.ids());
    let (after, rb) = observe(s, &probes);
    calls += 4 + 3 * probes.len() as u64;
    let canon = canon_hash(&after, &keep);
    if problems.is_empty() {
        if res.is_err() {
            // a failed operation changes nothing
            if after != before {
                problems.push((format!("{}:failed-op-changed-state:{why}", op.name()), format!("{} on {} failed but the set changed: {}", op.show(), m.show(), diff_obs(&before, &after))));
            }
        } else if let Err(e) = model.well_formed() {
            // can only happen if the implementation accepted something the prediction left open
            problems.push((format!("{}:implied-state-ill-formed", op.name()), format!("{} on {}: {e}", op.show(), m.show())));
        }
    }
    if problems.is_empty() {
        problems.extend(rb.into_iter().map(|(fp, what)| (format!("{fp}:after-{}", op.name()), format!("after {} on {}: {what}", op.show(), m.show()))));
        problems.extend(compare(&after, &model, t).into_iter().map(|(fp, what)| (format!("{fp}:after-{}", op.name()), format!("after {} on {}: {what}", op.show(), m.show()))));
    }
    Step { before: before_canon, problems, model, class, canon, calls }
}

// ---------------------------------------------------------------------------------------
// explorer
// ---------------------------------------------------------------------------------------

#[derive(Clone, Debug)]
pub struct St {
    hist: Vec<Op>,
    model: PsModel,
    canon: u64,
    depth: u8,
}

impl PartialEq for St {
    fn eq(&self, o: &St) -> bool {
        self.depth == o.depth && self.canon == o.canon && self.model == o.model
    }
}
impl Eq for St {}
impl Hash for St {
    fn hash<H: Hasher>(&self, h: &mut H) {
        self.depth.hash(h);
        self.canon.hash(h);
        self.model.hash(h);
    }
}

const SHARDS: usize = 64;

struct Explorer {
    ctx: Arc<Ctx>,
    t: &'static Tables,
    max_ops: u8,
    /// canonical state -> smallest number of operations by which it was reached so far
    seen: Vec<Mutex<HashMap<u64, u8>>>,
    stripes: Vec<Mutex<Local>>,
    replayed: AtomicU64,
    pruned: AtomicU64,
    max_set: AtomicU64,
    merge_renames: AtomicU64,
    /// fingerprint -> (history length, description, replay case): the parallel search is not
    /// strictly level-ordered, so the shortest failing history per fingerprint is kept here
    /// and handed to the harness at the end
    found: Mutex<BTreeMap<String, (usize, String, J)>>,
    found_count: AtomicU64,
}

fn state_key(m: &PsModel, canon: u64) -> u64 {
    hash_of(&(m, canon))
}

impl Explorer {
    fn stripe(&self) -> usize {
        (hash_of(&std::thread::current().id()) as usize) % SHARDS
    }

    fn report(&self, hist: &[Op], op: Option<&Op>, problems: &[(String, String)]) {
        // the same case in a fresh thread (fresh hash seeds) must give the same verdict
        let h2: Vec<Op> = hist.to_vec();
        let o2 = op.cloned();
        let t = self.t;
        let again = std::thread::spawn(move || run_case(&h2, o2.as_ref(), t).1.into_iter().map(|(fp, _)| fp).collect::<BTreeSet<_>>()).join();
        let now: BTreeSet<String> = problems.iter().map(|(fp, _)| fp.clone()).collect();
        match again {
            Ok(a) if a == now => {}
            other => machinery(format!("case {} / {:?} is not reproducible in a fresh thread: first {now:?}, then {other:?}", show_hist(hist), op.map(|o| o.show()))),
        }
        let len = hist.len() + op.is_some() as usize;
        for (fp, what) in problems {
            self.found_count.fetch_add(1, Ordering::Relaxed);
            let mut f = self.found.lock().unwrap();
            if f.get(fp).map(|(l, _, _)| *l > len).unwrap_or(true) {
                f.insert(
                    fp.clone(),
                    (
                        len,
                        format!("{what}\n history: {}", show_hist(hist)),
                        json!({"history": serde_json::to_value(hist).unwrap(), "op": serde_json::to_value(&op).unwrap(), "readable": format!("{} ; {}", show_hist(hist), op.map(|o| o.show()).unwrap_or_default())}),
                    ),
                );
            }
        }
    }

    fn step(&self, last: &St, op: &Op) -> Option<St> {
        let t = self.t;
        let mut s = rebuild(&last.hist, t);
        self.replayed.fetch_add(last.hist.len() as u64, Ordering::Relaxed);
        let st = check_step(&mut s, &last.model, op, t);
        if st.before != last.canon {
            machinery(format!("replaying {} does not rebuild the state it was explored with", show_hist(&last.hist)));
        }
        {
            let mut l = self.stripes[self.stripe()].lock().unwrap();
            l.case(hash_of(&(last.canon, &last.model, op)), &st.class, !last.model.is_empty());
            l.transitions += st.calls;
        }
        if !st.problems.is_empty() {
            self.report(&last.hist, Some(op), &st.problems);
            return None;
        }
        if matches!(op, Op::Merge { rename: true, .. }) && st.class.contains("conflicts=") && !st.class.contains("conflicts=0") {
            self.merge_renames.fetch_add(1, Ordering::Relaxed);
        }
        let depth = last.depth + 1;
        let key = state_key(&st.model, st.canon);
        let first = {
            let mut sh = self.seen[(key as usize) % SHARDS].lock().unwrap();
            match sh.get(&key) {
                Some(d) if *d <= depth => {
                    self.pruned.fetch_add(1, Ordering::Relaxed);
                    return None;
                }
                Some(_) => {
                    sh.insert(key, depth);
                    false
                }
                None => {
                    sh.insert(key, depth);
                    true
                }
            }
        };
        let mut hist = last.hist.clone();
        hist.push(op.clone());
        if first {
            self.max_set.fetch_max(st.model.ids().len() as u64, Ordering::Relaxed);
            let (bad, calls) = state_check(&s, &st.model, t);
            self.stripes[self.stripe()].lock().unwrap().transitions += calls;
            if !bad.is_empty() {
                self.report(&hist, None, &bad);
                return None;
            }
        }
        Some(St { hist, model: st.model, canon: st.canon, depth })
    }
}

fn actions_of(m: &PsModel, t: &Tables) -> Vec<Op> {
    let mut v = vec![];
    let nt = n_template_bodies(t.tier) as u8;
    for id in &t.pool {
        for b in 0..t.sbodies.len() as u8 {
            v.push(Op::Add { body: b, id: id.clone() });
        }
        v.push(Op::AddLinked { id: id.clone() });
        for b in 0..nt {
            v.push(Op::AddTemplate { body: b, id: id.clone() });
        }
    }
    let mut targets: BTreeSet<Id> = t.pool.iter().cloned().collect();
    targets.extend(m.ids());
    for tid in &targets {
        let binds = if m.templates.contains_key(tid) { t.binds.clone() } else { few_binds() };
        for new in &t.pool {
            for b in &binds {
                v.push(Op::Link { tid: tid.clone(), new: new.clone(), bind: b.clone() });
            }
        }
    }
    for id in &targets {
        v.push(Op::Unlink(id.clone()));
        v.push(Op::RemoveStatic(id.clone()));
        v.push(Op::RemoveTemplate(id.clone()));
    }
    for o in 0..t.others.len() as u8 {
        v.push(Op::Merge { other: o, rename: true });
        v.push(Op::Merge { other: o, rename: false });
    }
    v
}

impl SrModel for Explorer {
    type State = St;
    type Action = Op;

    fn init_states(&self) -> Vec<St> {
        let mut v = vec![];
        for (k, (s, m)) in self.t.inits.iter().enumerate() {
            let mut keep: BTreeSet<Id> = self.t.pool.iter().cloned().collect();
            keep.extend(m.ids());
            let (o, rb) = observe(s, &keep);
            let mut bad: Vec<(String, String)> = rb;
            bad.extend(compare(&o, m, self.t));
            let hist = vec![Op::Init(k as u8)];
            let bad: Vec<(String, String)> = bad.into_iter().map(|(fp, w)| (format!("init:{fp}"), format!("initial set #{k}: {w}"))).collect();
            if !bad.is_empty() {
                self.report(&hist, None, &bad);
                continue;
            }
            let canon = canon_hash(&o, &keep);
            let key = state_key(m, canon);
            self.seen[(key as usize) % SHARDS].lock().unwrap().insert(key, 0);
            let (bad, calls) = state_check(s, m, self.t);
            self.stripes[0].lock().unwrap().transitions += calls;
            if !bad.is_empty() {
                self.report(&hist, None, &bad);
                continue;
            }
            v.push(St { hist, model: m.clone(), canon, depth: 0 });
        }
        v
    }

    fn actions(&self, state: &St, actions: &mut Vec<Op>) {
        if state.depth >= self.max_ops {
            return;
        }
        let mut v = actions_of(&state.model, self.t);
        if self.ctx.seed != 0 && !v.is_empty() {
            let k = (self.ctx.seed as usize) % v.len();
            v.rotate_left(k);
        }
        actions.extend(v);
    }

    fn next_state(&self, last: &St, op: Op) -> Option<St> {
        match std::panic::catch_unwind(std::panic::AssertUnwindSafe(|| self.step(last, &op))) {
            Ok(x) => x,
            Err(p) => {
                let msg = panic_msg(&p);
                self.ctx.violation(
                    format!("panic:{}:{}", op.name(), msg.lines().next().unwrap_or("").chars().take(100).collect::<String>()),
                    format!("panic in {} after {}: {msg}", op.show(), show_hist(&last.hist)),
                    json!({"history": serde_json::to_value(&last.hist).unwrap(), "op": serde_json::to_value(&Some(&op)).unwrap(), "readable": format!("{} ; {}", show_hist(&last.hist), op.show())}),
                );
                None
            }
        }
    }

    fn properties(&self) -> Vec<Property<Self>> {
        // Conformance is judged inside `next_state`, where the real object exists; a
        // non-conforming successor is reported and not generated, so every generated state
        // conforms. The property keeps the checker running over the whole bounded space.
        vec![Property::<Self>::always("reference model well-formed", |_, s: &St| s.model.well_formed().is_ok())]
    }
}

/// run a history (and optionally one more op) with all checks; returns (trace lines, problems)
fn run_case(hist: &[Op], op: Option<&Op>, t: &Tables) -> (Vec<String>, Vec<(String, String)>) {
    let mut lines = vec![];
    let mut problems = vec![];
    let k = match hist.first() {
        Some(Op::Init(k)) if (*k as usize) < t.inits.len() => *k as usize,
        _ => 0,
    };
    let (mut s, mut m) = (t.inits[k].0.clone(), t.inits[k].1.clone());
    lines.push(format!("init#{k}: {}", m.show()));
    let all: Vec<&Op> = hist.iter().skip(1).chain(op).collect();
    let r = std::panic::catch_unwind(std::panic::AssertUnwindSafe(|| {
        for o in all {
            let st = check_step(&mut s, &m, o, t);
            lines.push(format!("{} -> {} ; reference model {}", o.show(), st.class, st.model.show()));
            let failed = !st.problems.is_empty();
            problems.extend(st.problems);
            if failed {
                return;
            }
            m = st.model;
            let (bad, _) = state_check(&s, &m, t);
            let failed = !bad.is_empty();
            problems.extend(bad);
            if failed {
                return;
            }
        }
    }));
    if let Err(p) = r {
        problems.push(("panic".to_string(), format!("panic: {}", panic_msg(&p))));
    }
    (lines, problems)
}

fn replay(path: &str) -> i32 {
    let doc: J = match std::fs::read_to_string(path).ok().and_then(|s| serde_json::from_str(&s).ok()) {
        Some(d) => d,
        None => {
            eprintln!("cannot read replay file {path}");
            return 2;
        }
    };
    if doc["property"].as_str() != Some("C08") {
        eprintln!("replay file {path} does not belong to C08");
        return 2;
    }
    let case = &doc["case"];
    let (Ok(hist), Ok(op)) = (serde_json::from_value::<Vec<Op>>(case["history"].clone()), serde_json::from_value::<Option<Op>>(case["op"].clone())) else {
        eprintln!("replay file {path} holds no C08 case");
        return 2;
    };
    quiet_panics();
    // a replayed history may come from either tier
    let t = match Tables::new(Tier::Thorough) {
        Ok(t) => t,
        Err((Some(fp), e)) => {
            println!("  [{fp}] {e}");
            println!("VIOLATION property=C08 replay={path}");
            return 1;
        }
        Err((None, e)) => {
            eprintln!("MACHINERY ERROR: {e}");
            return 2;
        }
    };
    let (lines, problems) = run_case(&hist, op.as_ref(), &t);
    println!("replaying {} ; {}", show_hist(&hist), op.as_ref().map(|o| o.show()).unwrap_or_default());
    for l in lines {
        println!("  {l}");
    }
    for (fp, what) in &problems {
        println!("  [{fp}] {what}");
    }
    if problems.is_empty() {
        println!("no mismatch on replay");
        0
    } else {
        println!("VIOLATION property=C08 replay={path}");
        1
    }
}

/// checks made once: constructors, visibility of every policy instance on some request
fn preamble(ctx: &Ctx, t: &Tables) -> Result<(), String> {
    // a slot-less "template" cannot be built through the public constructors (documented),
    // nor a static policy from template text
    for (b, body) in t.sbodies.iter().enumerate() {
        ctx.calls(2);
        if Template::parse(Some(PolicyId::new("x")), text_of(body)).is_ok() {
            ctx.violation("construct:slotless-template-parse", format!("Template::parse accepts the slot-less policy S{b}"), json!({"text": text_of(body)}));
        }
        if Template::from_json(Some(PolicyId::new("x")), body.est()).is_ok() {
            ctx.violation("construct:slotless-template-json", format!("Template::from_json accepts the slot-less policy S{b}"), json!({"est": body.est()}));
        }
    }
    for (b, body) in t.tbodies.iter().enumerate() {
        ctx.calls(2);
        if Policy::parse(Some(PolicyId::new("x")), text_of(body)).is_ok() {
            ctx.violation("construct:template-as-policy-parse", format!("Policy::parse accepts the template T{b}"), json!({"text": text_of(body)}));
        }
        if Policy::from_json(Some(PolicyId::new("x")), body.est()).is_ok() {
            ctx.violation("construct:template-as-policy-json", format!("Policy::from_json accepts the template T{b}"), json!({"est": body.est()}));
        }
    }
    // harness sanity: every instance is satisfied or erroring on some request, and every two
    // valid bindings of a template are told apart by some request
    let vis = |i: &Inst| -> Vec<Option<bool>> { t.reqs.iter().map(|(r, _)| i.eval(r, &t.store).ok()).collect() };
    for (b, body) in t.sbodies.iter().enumerate() {
        let v = vis(&Inst::stat(body.clone()));
        if !v.iter().any(|x| *x != Some(false)) {
            return Err(format!("static body S{b} is not observable on any request"));
        }
    }
    for (b, body) in t.tbodies.iter().enumerate() {
        let (sp, sr) = slots_of(body);
        let valid: Vec<&Bind> = t.binds.iter().filter(|x| x.p.is_some() == sp && x.r.is_some() == sr).collect();
        if valid.is_empty() {
            return Err(format!("template T{b} has no valid binding in the alphabet"));
        }
        for bd in &valid {
            let v = vis(&Inst::stat(body.substitute("x", bd.p.as_ref(), bd.r.as_ref())));
            if !v.iter().any(|x| *x != Some(false)) {
                return Err(format!("T{b}{} is not observable on any request", bd.show()));
            }
        }
    }
    Ok(())
}

static TABLES: OnceLock<Tables> = OnceLock::new();

pub fn run(tier: Tier, replay_file: Option<&str>) -> i32 {
    if let Some(p) = replay_file {
        return replay(p);
    }
    let ctx = Arc::new(Ctx::new("C08", tier));
    quiet_panics();
    let t: &'static Tables = match Tables::new(tier) {
        Ok(t) => TABLES.get_or_init(|| t),
        Err((Some(fp), e)) => {
            // an API call that the documentation says must succeed failed while the fixed
            // operands were built: the check cannot hold (and cannot explore any further)
            let ctx = Ctx::new("C08", tier);
            ctx.case(0, "fixed-objects:err", true);
            ctx.violation(fp, e.clone(), json!({"history": [], "op": null, "readable": e}));
            return ctx.finish("building the fixed operands failed; nothing was explored", json!({"tier": tier.name()}), &[], false);
        }
        Err((None, e)) => {
            eprintln!("MACHINERY ERROR: cannot build the fixed objects: {e}");
            return 2;
        }
    };
    if let Err(e) = preamble(&ctx, t) {
        eprintln!("MACHINERY ERROR: {e}");
        return 2;
    }
    // DESIGN asks for 3 | 4; depth 4 finishes in ~20 s, so thorough goes one level deeper
    // (a superset of the DESIGN bound, ~2.5 M checked transitions)
    let max_ops: u8 = tier.pick(3, 5);
    let ex = Explorer {
        ctx: ctx.clone(),
        t,
        max_ops,
        seen: (0..SHARDS).map(|_| Mutex::new(HashMap::new())).collect(),
        stripes: (0..SHARDS).map(|_| Mutex::new(Local::default())).collect(),
        replayed: AtomicU64::new(0),
        pruned: AtomicU64::new(0),
        max_set: AtomicU64::new(0),
        merge_renames: AtomicU64::new(0),
        found: Mutex::new(BTreeMap::new()),
        found_count: AtomicU64::new(0),
    };
    let threads = std::thread::available_parallelism().map(|n| n.get()).unwrap_or(4).min(16);
    let checker = ex.checker().threads(threads).spawn_bfs().join();
    let sr_unique = checker.unique_state_count();
    let sr_depth = checker.max_depth();
    let well_formed_counterexample = checker.discoveries().len();
    {
        let ex = checker.model();
        let mut found: Vec<(String, (usize, String, J))> = std::mem::take(&mut *ex.found.lock().unwrap()).into_iter().collect();
        found.sort_by_key(|(fp, (l, _, _))| (*l, fp.clone()));
        for (fp, (_, what, case)) in found {
            ctx.violation(fp, what, case);
        }
        ctx.set_info("failing_transitions_or_states", json!(ex.found_count.load(Ordering::Relaxed)));
        for s in &ex.stripes {
            let l = std::mem::take(&mut *s.lock().unwrap());
            ctx.merge(l);
        }
        let states: usize = ex.seen.iter().map(|m| m.lock().unwrap().len()).sum();
        ctx.states.store(states as u64, Ordering::Relaxed);
        ctx.max_depth.store(sr_depth.saturating_sub(1) as u64, Ordering::Relaxed);
        ctx.set_info("stateright_unique_states_with_depth", json!(sr_unique));
        ctx.set_info("distinct_canonical_states", json!(states));
        ctx.set_info("pruned_revisits", json!(ex.pruned.load(Ordering::Relaxed)));
        ctx.set_info("replayed_history_ops", json!(ex.replayed.load(Ordering::Relaxed)));
        ctx.set_info("largest_set", json!(ex.max_set.load(Ordering::Relaxed)));
        ctx.set_info("merges_that_renamed", json!(ex.merge_renames.load(Ordering::Relaxed)));
        ctx.set_info("threads", json!(threads));
    }
    drop(checker);
    if well_formed_counterexample > 0 {
        machinery("the reference model reached an ill-formed state".into());
    }
    // samples: the fixed sets and a few alphabet members
    for (k, (_, m)) in t.inits.iter().enumerate() {
        ctx.sample(json!({"initial_set": k, "model": m.show()}));
    }
    for (k, (_, m)) in t.others.iter().enumerate() {
        ctx.sample(json!({"merge_operand": k, "model": m.show()}));
    }
    for (b, body) in t.sbodies.iter().enumerate() {
        ctx.sample(json!({"static_body": b, "text": text_of(body)}));
    }
    for (b, body) in t.tbodies.iter().enumerate() {
        ctx.sample(json!({"template_body": b, "text": text_of(body)}));
    }
    let ctx = match Arc::try_unwrap(ctx) {
        Ok(c) => c,
        Err(_) => {
            eprintln!("MACHINERY ERROR: exploration context still shared after the checker finished");
            return 2;
        }
    };
    let mach = MACHINERY.load(Ordering::SeqCst);
    if mach {
        for m in MACHINERY_MSG.lock().unwrap().iter() {
            eprintln!("MACHINERY ERROR: {m}");
        }
    }
    let code = ctx.finish(
        "case = (canonical state, operation) transition; class = operation : ok|err : documented reason; non-trivial = the set is non-empty before the operation. States are deduplicated on (reference model, hash of the canonical form read back from the implementation) and re-expanded when reached again by a shorter history, so every history of at most `max_ops` operations from each initial set is covered up to canonical equality of its prefixes.",
        json!({
            "tier": tier.name(),
            "max_ops": max_ops,
            "ids": t.pool,
            "static_bodies": t.sbodies.len(),
            "template_bodies_addable": n_template_bodies(tier),
            "template_bodies_total": t.tbodies.len(),
            "bindings": t.binds.iter().map(|b| b.show()).collect::<Vec<_>>(),
            "link_alphabet": "tid in pool ∪ ids of the set; new id in pool; all 6 bindings when tid is a template of the reference model, else {} and {?principal=a}",
            "removal_targets": "pool ∪ ids of the set (so ids invented by merge stay addressable)",
            "merge_operands": t.others.len(),
            "initial_sets": ["empty", "from_str(S0;T1)+link", "from_json_value(templates, staticPolicies, templateLinks)"],
            "requests": t.reqs.len(),
        }),
        &[
            "reference evaluator/authorizer (refsem) is the language definition",
            "where the documentation leaves Ok/Err open (merge without renaming when the only shared ids have identical content) the outcome is not predicted; only 'a failed operation changes nothing' and 'result = self ∪ other' are required",
            "get_linked_policies on a static-policy id is unspecified and not compared (it is part of the state hash)",
            "iteration order of policies()/templates() and hash-map iteration order are not part of the canonical form; failing cases are re-run in a fresh thread",
            "a slot-less template cannot be constructed through the public constructors (checked once); it is therefore not an operand of add_template",
        ],
        true,
    );
    if mach && code == 0 {
        return 2;
    }
    code
}
