//! C07 — extension types (decimal, ip, datetime, duration) compute exact results.
//!
//! Bounded-exhaustive enumeration of constructor argument strings (all strings up to a length
//! over a small alphabet, boundary templates, product grids, every 1-char deletion /
//! substitution / insertion of valid strings) and of all pairs / triples over boundary value
//! sets for every operation. Each case runs on the real code and is compared with the
//! reference parsers / arithmetic of `refsem::ext` (i128, own calendar, own CIDR math).
//!
//! Bounds (quick | thorough), both exhaustive over their bound:
//!   decimal   all strings <= 6 | <= 7 over {0,1,9,-,.,+,space,a}  + ~3000 boundary templates
//!   duration  all strings <= 6 | <= 7 over {0,1,9,d,h,m,s,-}      + ~2300 boundary templates
//!   ip        all strings <= 6 | <= 7 over {0,1,f,:,.,/}; octet grid 13 x 5|13 x 5|13 x 13 x
//!             10 prefixes; 59 IPv6 x 25 prefix and 37 IPv4 x 30 prefix templates; mutations
//!   datetime  product grid year 4|8 x month 5 x day 7 x time 28 x ms 5 x zone 10; month ends,
//!             offset table, 1-char deletions / substitutions / insertions of 21 valid strings
//!   operations over 16 datetimes, 28 durations, 15 decimals, 59 ips: all pairs, and triples
//!             (third operand every 3rd | every value for the ip and spelling triples)
//!
//! Arrival paths of a constructor string:
//!   text   `<cedar_policy_core::ast::Expr as FromStr>` + `bind::core_eval`, value read through
//!          `bind::abs_value` (Debug of the internal representation, not the parser under test)
//!   rexpr  `cedar_policy::RestrictedExpression::new_{decimal,ip,datetime,duration}` placed in a
//!          `Context` and read back (value again through `abs_value`)
//!   api    `cedar_policy::eval_expression` (accepted / near-miss strings, all observers)
//! Accepted values are additionally observed through functions that do not reuse the parser
//! on the same string (toMilliseconds, durationSince(epoch), isIpv4/6, isInRange both ways
//! against the canonical spelling, == canonical, neighbours by lessThan / greaterThan).
use crate::bind::*;
use crate::harness::*;
use crate::world::*;
use cedar_policy_core::ast;
use cedar_policy_core::evaluator::EvaluationError;
use rayon::prelude::*;
use refsem::ext as rx;
use refsem::print::{str_lit, Style};
use refsem::*;
use serde_json::{json, Value as J};
use std::collections::BTreeMap;
use std::str::FromStr;

const TYS: [&str; 4] = ["decimal", "ip", "datetime", "duration"];
const DAY: i64 = 86_400_000;
/// smallest epoch whose `toDate` is representable: -106751991167 days
const TODATE_MIN: i64 = -106_751_991_167 * DAY;

#[derive(Clone, Debug, Hash, PartialEq, Eq, serde::Serialize, serde::Deserialize)]
pub enum Case {
    /// constructor `TYS[ty]` applied to `s`; `near` = produced by a boundary template, grid
    /// or mutation (as opposed to the all-strings sweep)
    Ctor { ty: usize, s: String, near: bool },
    /// an expression over extension values; `group` names the operation (fingerprints)
    Expr { group: String, e: E },
}

impl Case {
    fn text(&self) -> String {
        match self {
            Case::Ctor { ty, s, .. } => format!("{}({})", TYS[*ty], str_lit(s, false)),
            Case::Expr { e, .. } => refsem::print::text(e, &Style::default()),
        }
    }
    fn to_json(&self) -> J {
        json!({"c": serde_json::to_value(self).unwrap(), "text": self.text()})
    }
}

// ---------------------------------------------------------------------------------------------
// reference side
// ---------------------------------------------------------------------------------------------

/// reference constructor (refsem parsers; no workaround was needed, see `oracle_selfcheck`)
fn ref_parse(ty: usize, s: &str) -> Option<ExtVal> {
    match ty {
        0 => rx::parse_decimal(s).map(ExtVal::Decimal),
        1 => rx::parse_ip(s).map(ExtVal::Ip),
        2 => rx::parse_datetime(s).map(ExtVal::Datetime),
        _ => rx::parse_duration(s).map(ExtVal::Duration),
    }
}

/// closed-form days-from-civil (independent of refsem's summing loop), used to cross-check it
fn civil_closed(y: i64, m: i64, d: i64) -> i64 {
    let y = if m <= 2 { y - 1 } else { y };
    let era = y.div_euclid(400);
    let yoe = y - era * 400;
    let mp = (m + 9) % 12;
    let doy = (153 * mp + 2) / 5 + d - 1;
    let doe = yoe * 365 + yoe / 4 - yoe / 100 + doy;
    era * 146_097 + doe - 719_468
}

/// Hand-derived expectations the reference must satisfy before it is used as an oracle.
/// A failure here is a machinery error (exit 2), never a verdict.
fn oracle_selfcheck() -> Result<(), String> {
    let dec: &[(&str, Option<i64>)] = &[
        ("0.0", Some(0)),
        ("-0.0", Some(0)),
        ("1.5", Some(15_000)),
        ("-1.5", Some(-15_000)),
        ("0.0001", Some(1)),
        ("-0.0001", Some(-1)),
        ("001.10", Some(11_000)),
        ("922337203685477.5807", Some(i64::MAX)),
        ("922337203685477.5808", None),
        ("-922337203685477.5808", Some(i64::MIN)),
        ("-922337203685477.5809", None),
        ("922337203685478.0", None),
        ("1.00000", None),
        ("1.", None),
        (".1", None),
        ("1", None),
        ("+1.0", None),
        (" 1.0", None),
        ("1.0 ", None),
        ("1.0\n", None),
        ("--1.0", None),
        ("1.-1", None),
        ("", None),
    ];
    for (s, v) in dec {
        if rx::parse_decimal(s) != *v {
            return Err(format!("reference parse_decimal({s:?}) = {:?}, documented {:?}", rx::parse_decimal(s), v));
        }
    }
    let dur: &[(&str, Option<i64>)] = &[
        ("0ms", Some(0)),
        ("-0ms", Some(0)),
        ("1d", Some(DAY)),
        ("1d2h3m4s5ms", Some(DAY + 2 * 3_600_000 + 3 * 60_000 + 4_000 + 5)),
        ("-1d2h3m4s5ms", Some(-(DAY + 2 * 3_600_000 + 3 * 60_000 + 4_000 + 5))),
        ("1m1ms", Some(60_001)),
        ("1ms", Some(1)),
        ("1m", Some(60_000)),
        ("9223372036854775807ms", Some(i64::MAX)),
        ("9223372036854775808ms", None),
        ("-9223372036854775808ms", Some(i64::MIN)),
        ("-9223372036854775809ms", None),
        ("106751991167d7h12m55s807ms", Some(i64::MAX)),
        ("106751991167d7h12m55s808ms", None),
        ("-106751991167d7h12m55s808ms", Some(i64::MIN)),
        ("106751991168d", None),
        ("", None),
        ("-", None),
        ("1", None),
        ("d", None),
        ("1h1d", None),
        ("1d1d", None),
        ("1ms1s", None),
        ("+1d", None),
        ("1 d", None),
        ("1D", None),
        ("1d-1h", None),
    ];
    for (s, v) in dur {
        if rx::parse_duration(s) != *v {
            return Err(format!("reference parse_duration({s:?}) = {:?}, documented {:?}", rx::parse_duration(s), v));
        }
    }
    let dt: &[(&str, Option<i64>)] = &[
        ("1970-01-01", Some(0)),
        ("1970-01-01T00:00:00Z", Some(0)),
        ("1969-12-31T23:59:59.999Z", Some(-1)),
        ("1970-01-01T00:00:00.001Z", Some(1)),
        ("1970-01-01T01:00:00+0100", Some(0)),
        ("1970-01-01T00:00:00+0100", Some(-3_600_000)),
        ("1970-01-01T00:00:00-0100", Some(3_600_000)),
        ("2024-01-01", Some(1_704_067_200_000)),
        ("2024-02-29T12:00:00+0100", Some(1_709_204_400_000)),
        ("9999-12-31T23:59:59.999Z", Some(253_402_300_799_999)),
        ("0000-01-01", Some(-62_167_219_200_000)),
        ("2000-02-29", Some(951_782_400_000)),
        ("1900-02-29", None),
        ("2023-02-29", None),
        ("2024-02-30", None),
        ("2024-13-01", None),
        ("2024-00-01", None),
        ("2024-01-00", None),
        ("2024-04-31", None),
        ("2024-01-01T24:00:00Z", None),
        ("2024-01-01T00:60:00Z", None),
        ("2024-01-01T00:00:60Z", None),
        ("2024-01-01T00:00:00", None),
        ("2024-01-01T00:00:00z", None),
        ("2024-01-01T00:00:00.99Z", None),
        ("2024-01-01T00:00:00.9999Z", None),
        ("2024-01-01T00:00:00+2400", None),
        ("2024-01-01T00:00:00+0060", None),
        ("2024-01-01T00:00:00+00:00", None),
        ("2024-01-01T00:00:00+2359", Some(1_704_067_200_000 - (23 * 3_600_000 + 59 * 60_000))),
        ("2024-01-01Z", None),
        ("2024-1-1", None),
        ("", None),
    ];
    for (s, v) in dt {
        if rx::parse_datetime(s) != *v {
            return Err(format!("reference parse_datetime({s:?}) = {:?}, documented {:?}", rx::parse_datetime(s), v));
        }
    }
    let v4 = |a: u32, p: u8| Some(IpVal { v6: false, addr: a as u128, prefix: p });
    let v6 = |a: u128, p: u8| Some(IpVal { v6: true, addr: a, prefix: p });
    let ip: &[(&str, Option<IpVal>)] = &[
        ("10.0.0.1", v4(0x0a00_0001, 32)),
        ("10.0.0.1/8", v4(0x0a00_0001, 8)),
        ("0.0.0.0/0", v4(0, 0)),
        ("255.255.255.255/32", v4(0xffff_ffff, 32)),
        ("255.255.255.255/33", None),
        ("1.1.1.1/08", None),
        ("1.1.1.1/00", None),
        ("1.1.1.1/", None),
        ("1.1.1.1/a", None),
        ("01.1.1.1", None),
        ("256.1.1.1", None),
        ("1.1.1", None),
        ("1.1.1.1.1", None),
        ("::", v6(0, 128)),
        ("::1", v6(1, 128)),
        ("1::", v6(1u128 << 112, 128)),
        ("::/0", v6(0, 0)),
        ("ff00::/8", v6(0xffu128 << 120, 8)),
        ("FF00::/8", v6(0xffu128 << 120, 8)),
        ("1:2:3:4:5:6:7:8", v6(0x0001_0002_0003_0004_0005_0006_0007_0008, 128)),
        ("1:2:3:4:5:6:7::", v6(0x0001_0002_0003_0004_0005_0006_0007_0000, 128)),
        ("1:2:3:4:5:6:7:8:9", None),
        ("1:2:3:4:5:6:7", None),
        ("1:2:3:4::5:6:7:8", None),
        ("1::2::3", None),
        ("12345::", None),
        ("::ffff:1.2.3.4", None),
        ("::1.2.3.4", None),
        ("fe80::1%eth0", None),
        ("::1/129", None),
        ("::1/000", None),
        ("::1/128", v6(1, 128)),
        (":::", None),
        ("", None),
    ];
    for (s, v) in ip {
        if rx::parse_ip(s) != *v {
            return Err(format!("reference parse_ip({s:?}) = {:?}, documented {:?}", rx::parse_ip(s), v));
        }
    }
    // calendar: summing loop of the reference vs closed form, first and last day of every
    // month of every year 0000..=9999, and month lengths
    let bad = (0i64..10_000).into_par_iter().find_map_any(|y| {
        let mut prev_end: Option<i64> = None;
        for m in 1..=12 {
            let last = rx::days_in_month(y, m);
            for d in [1, last] {
                let a = rx::days_from_civil(y, m, d);
                let b = civil_closed(y, m, d);
                if a != b {
                    return Some(format!("days_from_civil({y},{m},{d}): loop {a} closed form {b}"));
                }
            }
            if let Some(p) = prev_end {
                if rx::days_from_civil(y, m, 1) != p + 1 {
                    return Some(format!("month {y}-{m} does not start the day after the previous month ends"));
                }
            }
            prev_end = Some(rx::days_from_civil(y, m, last));
        }
        None
    });
    if let Some(b) = bad {
        return Err(b);
    }
    // a few operation facts
    let d = |x: i64| Val::Ext(ExtVal::Datetime(x));
    let u = |x: i64| Val::Ext(ExtVal::Duration(x));
    let facts: Vec<(&str, Vec<Val>, R)> = vec![
        ("toDate", vec![d(-1)], Ok(d(-DAY))),
        ("toDate", vec![d(-DAY)], Ok(d(-DAY))),
        ("toDate", vec![d(DAY - 1)], Ok(d(0))),
        ("toDate", vec![d(i64::MIN)], Err(ErrClass::Extension)),
        ("toDate", vec![d(TODATE_MIN)], Ok(d(TODATE_MIN))),
        ("toDate", vec![d(TODATE_MIN - 1)], Err(ErrClass::Extension)),
        ("toTime", vec![d(-1)], Ok(u(DAY - 1))),
        ("toTime", vec![d(-DAY)], Ok(u(0))),
        ("toTime", vec![d(-DAY - 1)], Ok(u(DAY - 1))),
        ("toSeconds", vec![u(-1999)], Ok(Val::Long(-1))),
        ("toDays", vec![u(-DAY - 1)], Ok(Val::Long(-1))),
        ("toDays", vec![u(-DAY + 1)], Ok(Val::Long(0))),
        ("offset", vec![d(i64::MAX), u(1)], Err(ErrClass::Extension)),
        ("offset", vec![d(i64::MIN), u(-1)], Err(ErrClass::Extension)),
        ("offset", vec![d(i64::MAX), u(-1)], Ok(d(i64::MAX - 1))),
        ("durationSince", vec![d(0), d(i64::MIN)], Err(ErrClass::Extension)),
        ("durationSince", vec![d(-1), d(i64::MIN)], Ok(u(i64::MAX))),
        ("durationSince", vec![d(i64::MIN), d(0)], Ok(u(i64::MIN))),
    ];
    for (f, args, want) in facts {
        let got = rx::call(f, &args);
        if got != want {
            return Err(format!("reference {f}({args:?}) = {got:?}, expected {want:?}"));
        }
    }
    let ipf = |s: &str| Val::Ext(ExtVal::Ip(rx::parse_ip(s).unwrap()));
    let ipfacts: Vec<(&str, Vec<Val>, bool)> = vec![
        ("isLoopback", vec![ipf("127.0.0.1")], true),
        ("isLoopback", vec![ipf("127.0.0.1/8")], true),
        ("isLoopback", vec![ipf("127.0.0.1/7")], false),
        ("isLoopback", vec![ipf("126.255.255.255")], false),
        ("isLoopback", vec![ipf("128.0.0.0")], false),
        ("isLoopback", vec![ipf("::1")], true),
        ("isLoopback", vec![ipf("::1/127")], false),
        ("isLoopback", vec![ipf("::ffff:7f00:1")], false),
        ("isMulticast", vec![ipf("224.0.0.0/4")], true),
        ("isMulticast", vec![ipf("224.0.0.0/3")], false),
        ("isMulticast", vec![ipf("239.255.255.255")], true),
        ("isMulticast", vec![ipf("240.0.0.0")], false),
        ("isMulticast", vec![ipf("223.255.255.255")], false),
        ("isMulticast", vec![ipf("ff00::/8")], true),
        ("isMulticast", vec![ipf("ff00::/7")], false),
        ("isMulticast", vec![ipf("feff::")], false),
        ("isInRange", vec![ipf("10.0.0.1"), ipf("10.0.0.0/8")], true),
        ("isInRange", vec![ipf("10.0.0.0/8"), ipf("10.0.0.1")], false),
        ("isInRange", vec![ipf("10.0.0.0/8"), ipf("10.0.0.0/8")], true),
        ("isInRange", vec![ipf("10.0.0.0/7"), ipf("10.0.0.0/8")], false),
        ("isInRange", vec![ipf("11.0.0.0"), ipf("10.0.0.0/8")], false),
        ("isInRange", vec![ipf("11.0.0.0"), ipf("10.0.0.0/7")], true),
        ("isInRange", vec![ipf("255.255.255.255"), ipf("0.0.0.0/0")], true),
        ("isInRange", vec![ipf("::1"), ipf("0.0.0.0/0")], false),
        ("isInRange", vec![ipf("::1"), ipf("::/0")], true),
        ("isInRange", vec![ipf("::/0"), ipf("::/0")], true),
        ("isInRange", vec![ipf("::/0"), ipf("::/1")], false),
    ];
    for (f, args, want) in ipfacts {
        let got = rx::call(f, &args);
        if got != Ok(Val::Bool(want)) {
            return Err(format!("reference {f}({args:?}) = {got:?}, expected {want}"));
        }
    }
    Ok(())
}

// ---------------------------------------------------------------------------------------------
// implementation side
// ---------------------------------------------------------------------------------------------

struct Prep {
    req: cedar_policy::Request,
    ents: cedar_policy::Entities,
    rreq: Req,
    rstore: Store,
}

impl Prep {
    fn new() -> Prep {
        let rreq = Req { principal: ua(), action: view(), resource: dd(), context: BTreeMap::new() };
        let rstore = Store::default();
        Prep { req: c_request(&rreq), ents: cedar_policy::Entities::empty(), rreq, rstore }
    }
}

fn mismatch_kind(expect: &R, got: &R) -> &'static str {
    match (expect, got) {
        (Ok(_), Ok(_)) => "wrong-value",
        (Err(_), Ok(_)) => "no-error",
        (Ok(_), Err(_)) => "spurious-error",
        (Err(_), Err(_)) => "wrong-error-class",
    }
}

fn outcome_class(r: &R) -> String {
    match r {
        Ok(Val::Bool(b)) => b.to_string(),
        Ok(v) => v.kind().to_string(),
        Err(c) => format!("err-{c:?}"),
    }
}

/// compare the (lossy) API result with the reference result; None = agree
fn api_mismatch(ar: &Result<cedar_policy::EvalResult, EvaluationError>, expect: &R) -> Option<&'static str> {
    use cedar_policy::EvalResult as ER;
    match (ar, expect) {
        (Err(e), Err(c)) => {
            if class_of(e) == *c {
                None
            } else {
                Some("wrong-error-class")
            }
        }
        (Err(_), Ok(_)) => Some("spurious-error"),
        (Ok(_), Err(_)) => Some("no-error"),
        (Ok(a), Ok(v)) => {
            let ok = match (a, v) {
                (ER::Bool(x), Val::Bool(y)) => x == y,
                (ER::Long(x), Val::Long(y)) => x == y,
                (ER::String(x), Val::Str(y)) => x == y,
                (ER::Set(x), Val::Set(y)) => x.len() == y.len(),
                (ER::Record(x), Val::Rec(y)) => x.len() == y.len(),
                (ER::ExtensionValue(_), Val::Ext(_)) => true,
                _ => false,
            };
            if ok {
                None
            } else {
                Some("wrong-value")
            }
        }
    }
}

type Bad = Vec<(String, String)>;

/// evaluate one expression through text (core evaluator, internal representation) and,
/// if `api`, through `cedar_policy::eval_expression`; compare with the reference evaluator
fn check_expr(group: &str, e: &E, api: bool, p: &Prep, l: &mut Local, bad: &mut Bad) {
    let text = refsem::print::text(e, &Style::default());
    let expect = refsem::eval(e, &Env::new(&p.rreq, &p.rstore));
    match <ast::Expr as FromStr>::from_str(&text) {
        Err(err) => bad.push(("gen:text-rejected".into(), format!("generated text rejected by the parser: {text}: {err}"))),
        Ok(parsed) => {
            let got = core_eval(&parsed, &p.req, &p.ents);
            l.transitions += 1;
            match abs_result(&got) {
                Err(inv) => bad.push((format!("{group}:text:repr-invariant"), format!("{inv} (expr {text})"))),
                Ok(g) => {
                    if g != expect {
                        bad.push((format!("{group}:text:{}", mismatch_kind(&expect, &g)), format!("`{text}`: expected {expect:?} got {g:?}")));
                    }
                }
            }
        }
    }
    if api {
        match cedar_policy::Expression::from_str(&text) {
            Err(err) => bad.push(("gen:api-text-rejected".into(), format!("Expression::from_str rejected {text}: {err}"))),
            Ok(ae) => {
                let ar = cedar_policy::eval_expression(&p.req, &p.ents, &ae);
                l.transitions += 1;
                if let Some(k) = api_mismatch(&ar, &expect) {
                    bad.push((format!("{group}:api:{k}"), format!("eval_expression `{text}`: expected {expect:?} got {:?}", ar.as_ref().map_err(|e| e.to_string()))));
                }
            }
        }
    }
}

fn ctor_e(ty: usize, s: &str) -> E {
    E::ext(TYS[ty], vec![E::Str(s.to_string())])
}
fn val_e(x: ExtVal) -> E {
    rx::to_expr(&x)
}
fn dt_e(ms: i64) -> E {
    val_e(ExtVal::Datetime(ms))
}
fn dur_e(ms: i64) -> E {
    val_e(ExtVal::Duration(ms))
}
fn dec_e(v: i64) -> E {
    val_e(ExtVal::Decimal(v))
}
fn call(name: &str, args: Vec<E>) -> E {
    E::ext(name, args)
}

/// observers of an accepted constructor value `v` built from string `s`
fn observers(ty: usize, s: &str, v: &ExtVal) -> Vec<(String, E)> {
    let c = || ctor_e(ty, s);
    let canon = val_e(v.clone());
    let mut out: Vec<(String, E)> = Vec::new();
    let name = TYS[ty];
    let mut push = |what: &str, e: E| out.push((format!("obs-{name}:{what}"), e));
    push("eq-canonical", E::bin(BinOp::Eq, c(), canon.clone()));
    push("eq-canonical-rev", E::bin(BinOp::Eq, canon.clone(), c()));
    push("set-with-canonical", E::Set(vec![c(), canon.clone()]));
    match v {
        ExtVal::Decimal(x) => {
            push("le-canonical", call("lessThanOrEqual", vec![c(), canon.clone()]));
            push("ge-canonical", call("greaterThanOrEqual", vec![c(), canon.clone()]));
            push("lt-canonical", call("lessThan", vec![c(), canon.clone()]));
            if *x < i64::MAX {
                push("lt-next", call("lessThan", vec![c(), dec_e(x + 1)]));
            }
            if *x > i64::MIN {
                push("gt-prev", call("greaterThan", vec![c(), dec_e(x - 1)]));
            }
        }
        ExtVal::Ip(_) => {
            for f in ["isIpv4", "isIpv6", "isLoopback", "isMulticast"] {
                push(f, call(f, vec![c()]));
            }
            push("inrange-canonical", call("isInRange", vec![c(), canon.clone()]));
            push("canonical-inrange", call("isInRange", vec![canon.clone(), c()]));
        }
        ExtVal::Datetime(x) => {
            push("ms-since-epoch", call("toMilliseconds", vec![call("durationSince", vec![c(), ctor_e(2, "1970-01-01")])]));
            push("le-canonical", E::bin(BinOp::Le, c(), canon.clone()));
            push("lt-canonical", E::bin(BinOp::Lt, c(), canon.clone()));
            push("lt-next", E::bin(BinOp::Lt, c(), dt_e(x + 1)));
            push("gt-prev", E::bin(BinOp::Gt, c(), dt_e(x - 1)));
        }
        ExtVal::Duration(x) => {
            push("toMilliseconds", call("toMilliseconds", vec![c()]));
            push("le-canonical", E::bin(BinOp::Le, c(), canon.clone()));
            push("lt-canonical", E::bin(BinOp::Lt, c(), canon.clone()));
            if *x < i64::MAX {
                push("lt-next", E::bin(BinOp::Lt, c(), dur_e(x + 1)));
            }
            if *x > i64::MIN {
                push("gt-prev", E::bin(BinOp::Gt, c(), dur_e(x - 1)));
            }
        }
    }
    out
}

fn check_ctor(ty: usize, s: &str, near: bool, p: &Prep, l: &mut Local, bad: &mut Bad) {
    let name = TYS[ty];
    let expect_v = ref_parse(ty, s);
    let expect: R = match &expect_v {
        Some(v) => Ok(Val::Ext(v.clone())),
        None => Err(ErrClass::Extension),
    };
    l.case(hash_of(&(ty, s)), &format!("ctor-{name}:{}", if expect_v.is_some() { "accept" } else { "reject" }), expect_v.is_some() || near);
    // path text (+ api for accepted / near-miss strings)
    let e = ctor_e(ty, s);
    check_expr(&format!("ctor-{name}"), &e, near || expect_v.is_some(), p, l, bad);
    // path rexpr: RestrictedExpression constructor -> Context -> read back
    use cedar_policy::RestrictedExpression as RE;
    let rexpr = match ty {
        0 => RE::new_decimal(s),
        1 => RE::new_ip(s),
        2 => RE::new_datetime(s),
        _ => RE::new_duration(s),
    };
    let made = cedar_policy::Context::from_pairs([("x".to_string(), rexpr)]);
    l.transitions += 1;
    let got: Result<R, String> = match &made {
        Ok(c) => {
            let core: &ast::Context = c.as_ref();
            match core {
                ast::Context::Value(m) => match m.get("x") {
                    Some(v) => abs_value(v).map(Ok),
                    None => Err("context lost its key".into()),
                },
                _ => Err("context is not a concrete value".into()),
            }
        }
        Err(cedar_policy::ContextCreationError::Evaluation(e)) => Ok(Err(class_of(e))),
        Err(other) => Err(format!("context creation failed with a non-evaluation error: {other}")),
    };
    match got {
        Err(m) => bad.push((format!("ctor-{name}:rexpr:repr-invariant"), format!("RestrictedExpression::new_{name}({s:?}) in a Context: {m}"))),
        Ok(g) => {
            if g != expect {
                bad.push((format!("ctor-{name}:rexpr:{}", mismatch_kind(&expect, &g)), format!("RestrictedExpression::new_{name}({s:?}) in a Context: expected {expect:?} got {g:?}")));
            }
        }
    }
    // observers on accepted values
    if let Some(v) = &expect_v {
        for (g, oe) in observers(ty, s, v) {
            check_expr(&g, &oe, true, p, l, bad);
        }
        // the value placed in the context, read by a policy expression
        if let Ok(c) = made {
            if let Ok(req) = cedar_policy::Request::new(c_uid(&p.rreq.principal), c_uid(&p.rreq.action), c_uid(&p.rreq.resource), c, None) {
                let canon = refsem::print::text(&val_e(v.clone()), &Style::default());
                let text = format!("context.x == {canon} && [context.x, {canon}].containsAll([{}])", Case::Ctor { ty, s: s.to_string(), near }.text());
                match <ast::Expr as FromStr>::from_str(&text) {
                    Err(err) => bad.push(("gen:text-rejected".into(), format!("{text}: {err}"))),
                    Ok(parsed) => {
                        let r = core_eval(&parsed, &req, &p.ents);
                        l.transitions += 1;
                        match abs_result(&r) {
                            Ok(Ok(Val::Bool(true))) => {}
                            other => bad.push((format!("ctor-{name}:rexpr-context:wrong-value"), format!("with context.x = RestrictedExpression::new_{name}({s:?}): `{text}` gave {other:?}, expected true"))),
                        }
                    }
                }
            }
        }
    }
}

fn check_case(c: &Case, p: &Prep, l: &mut Local) -> Bad {
    let mut bad = Vec::new();
    match c {
        Case::Ctor { ty, s, near } => check_ctor(*ty, s, *near, p, l, &mut bad),
        Case::Expr { group, e } => {
            let expect = refsem::eval(e, &Env::new(&p.rreq, &p.rstore));
            // histogram class: the first two components of the group name
            let short: Vec<&str> = group.split('-').take(2).collect();
            l.case(hash_of(c), &format!("{}:{}", short.join("-"), outcome_class(&expect)), true);
            check_expr(group, e, true, p, l, &mut bad);
        }
    }
    bad
}

// ---------------------------------------------------------------------------------------------
// generators: constructor strings
// ---------------------------------------------------------------------------------------------

/// every 1-char deletion, substitution and insertion (alphabet `alpha`) of `s`
fn mutations(s: &str, alpha: &str) -> Vec<String> {
    let cs: Vec<char> = s.chars().collect();
    let mut out = Vec::new();
    for i in 0..cs.len() {
        let mut d = cs.clone();
        d.remove(i);
        out.push(d.iter().collect());
        for a in alpha.chars() {
            if a != cs[i] {
                let mut x = cs.clone();
                x[i] = a;
                out.push(x.iter().collect());
            }
        }
    }
    for i in 0..=cs.len() {
        for a in alpha.chars() {
            let mut x = cs.clone();
            x.insert(i, a);
            out.push(x.iter().collect());
        }
    }
    out
}

const DEC_ALPHA: [char; 8] = ['0', '1', '9', '-', '.', '+', ' ', 'a'];
const DUR_ALPHA: [char; 8] = ['0', '1', '9', 'd', 'h', 'm', 's', '-'];
const IP_ALPHA: [char; 6] = ['0', '1', 'f', ':', '.', '/'];

fn sweep_len(tier: Tier) -> usize {
    tier.pick(6, 7)
}

fn count_strings(k: usize, max: usize) -> u64 {
    (0..=max as u32).map(|l| (k as u64).pow(l)).sum()
}

/// the idx-th string over `alpha` in (length, lexicographic) order
fn nth_string(alpha: &[char], mut idx: u64) -> String {
    let k = alpha.len() as u64;
    let mut len = 0u32;
    while idx >= k.pow(len) {
        idx -= k.pow(len);
        len += 1;
    }
    let mut cs = vec![alpha[0]; len as usize];
    for i in (0..len as usize).rev() {
        cs[i] = alpha[(idx % k) as usize];
        idx /= k;
    }
    cs.into_iter().collect()
}

/// all strings up to `max` over `alpha` for constructor `ty`, generated on the fly
fn sweep(ctx: &Ctx, ty: usize, alpha: &[char], max: usize) -> u64 {
    let total = count_strings(alpha.len(), max);
    let chunk = 2048u64;
    let nchunks = (total + chunk - 1) / chunk;
    (0..nchunks).into_par_iter().for_each(|i| {
        let ci = (i + ctx.seed) % nchunks;
        let p = Prep::new();
        let mut l = Local::default();
        for idx in ci * chunk..((ci + 1) * chunk).min(total) {
            let c = Case::Ctor { ty, s: nth_string(alpha, idx), near: false };
            run_case(ctx, &c, &p, &mut l);
            if idx == total / 2 {
                ctx.sample(json!({"case": c.text()}));
            }
        }
        ctx.merge(l);
    });
    total
}

fn run_case(ctx: &Ctx, c: &Case, p: &Prep, l: &mut Local) {
    let res = ctx.guard("C07 case", || c.to_json(), || check_case(c, p, l));
    if let Some(bad) = res {
        for (fp, what) in bad {
            ctx.violation(fp, what, c.to_json());
        }
    }
}

fn decimal_templates() -> Vec<String> {
    let ints = [
        "0",
        "1",
        "92233720368547",
        "922337203685476",
        "922337203685477",
        "922337203685478",
        "0922337203685477",
        "00000000000000000000922337203685477",
        "1000000000000000",
        "9223372036854775807",
        "9223372036854775808",
        "18446744073709551615",
        "18446744073709551616",
        "99999999999999999999",
        "100000000000000000000",
        "000000000000000000000000000001",
    ];
    let fracs = ["", "0", "5", "58", "580", "5806", "5807", "5808", "5809", "9999", "0000", "58070", "58080", "00000", "000000", "0001", "00001"];
    let signs = ["", "-", "+", "--", " -", "- "];
    let mut out = Vec::new();
    for sg in signs {
        for i in ints {
            for f in fracs {
                out.push(format!("{sg}{i}.{f}"));
            }
            out.push(format!("{sg}{i}"));
        }
        out.push(format!("{sg}.5"));
        out.push(format!("{sg}."));
    }
    for s in [
        "1.0\n", "\n1.0", "1.0\r\n", "1.0\0", "1.0 ", " 1.0", "1 .0", "1. 0", "1,0", "1.0.0", "1..0", "1e3", "1.0e3", "1.0E3", "0x1.0", "1_000.0", "1.0_0", "１.０", "١.٢", "1.٢", "١.0", "NaN", "inf", "-inf", "∞", "1.0f", "1.0d",
        "😀.0", "1/2", "1.0\t", "\"1.0\"", "\\1.0", "1.\\0",
    ] {
        out.push(s.to_string());
    }
    for v in ["0.0", "-1.5", "12.3456", "922337203685477.5807", "-922337203685477.5808", "-0.0001"] {
        out.extend(mutations(v, "0159-.+ a"));
    }
    out
}

fn duration_templates() -> Vec<String> {
    let units: [(&str, i128); 5] = [("d", 86_400_000), ("h", 3_600_000), ("m", 60_000), ("s", 1000), ("ms", 1)];
    let max = i64::MAX as i128;
    let mut out: Vec<String> = Vec::new();
    // per-unit limits
    for (u, m) in units {
        let q = max / m;
        for n in [q - 1, q, q + 1, q + 2, (max + 1) / m, u64::MAX as i128 / m, u64::MAX as i128 / m + 1] {
            out.push(format!("{n}{u}"));
            out.push(format!("-{n}{u}"));
            out.push(format!("000{n}{u}"));
        }
        for n in ["18446744073709551615", "18446744073709551616", "99999999999999999999", "100000000000000000000000000", "0", "00", "1", "00000000000000000000000001"] {
            out.push(format!("{n}{u}"));
            out.push(format!("-{n}{u}"));
        }
    }
    // decompositions of totals around the limits, greedy and with a huge low unit
    let decomp = |t: i128| -> String {
        let mut r = t;
        let mut s = String::new();
        for (u, m) in units {
            let q = r / m;
            r -= q * m;
            s.push_str(&format!("{q}{u}"));
        }
        s
    };
    for t in [max - 1, max, max + 1, max + 2] {
        out.push(decomp(t));
        out.push(format!("-{}", decomp(t)));
        for (hi, (u, m)) in units.iter().enumerate().take(4) {
            for (lo_u, lo_m) in units.iter().skip(hi + 1) {
                // 1 high unit + the rest in one lower unit (only when exactly representable)
                let rest = t - m;
                if rest % lo_m == 0 {
                    out.push(format!("1{u}{}{lo_u}", rest / lo_m));
                    out.push(format!("-1{u}{}{lo_u}", rest / lo_m));
                }
            }
        }
    }
    // order and repetition
    for i in 0..5 {
        for j in 0..5 {
            out.push(format!("1{}2{}", units[i].0, units[j].0));
            out.push(format!("-1{}2{}", units[i].0, units[j].0));
            for k in 0..5 {
                out.push(format!("1{}2{}3{}", units[i].0, units[j].0, units[k].0));
            }
        }
    }
    for s in [
        "", "-", "--", "--1s", "+1s", "-+1s", "1", "-1", "d", "ms", "-ms", "1 d", " 1d", "1d ", "1d\n", "\n1d", "1D", "1MS", "1Ms", "1mS", "1.5s", "1,5s", "1us", "1ns", "1w", "1y", "1sec", "1min", "1d-1h", "1d 1h", "1d,1h", "-1d-1h",
        "1d+1h", "١s", "1ｓ", "1µs", "0d0h0m0s0ms", "-0d0h0m0s0ms", "1d2h3m4s5ms", "-1d2h3m4s5ms", "1m2ms", "1ms2m", "1mss", "1msms", "1sm", "1dh", "1d2", "1d2h3", "d1", "1e3ms", "0x1ms", "1_000ms", "1d\0", "😀", "1😀",
        "24h", "1440m", "86400s", "86400000ms", "23h59m60s", "23h59m59s1000ms",
    ] {
        out.push(s.to_string());
    }
    for v in ["1d2h3m4s5ms", "-1d2h3m4s5ms", "106751991167d7h12m55s807ms", "-106751991167d7h12m55s808ms", "9223372036854775807ms", "1s"] {
        out.extend(mutations(v, "019dhms- "));
    }
    out
}

fn datetime_grid(tier: Tier) -> Vec<String> {
    let years: &[&str] = &["0000", "0001", "1969", "1970", "1900", "2000", "2024", "9999"];
    let months = ["00", "01", "02", "12", "13"];
    let days = ["00", "01", "28", "29", "30", "31", "32"];
    let hh = ["00", "23", "24"];
    let mm = ["00", "59", "60"];
    let ss = ["00", "59", "60"];
    let mut times: Vec<String> = vec![String::new()];
    for h in hh {
        for m in mm {
            for s in ss {
                times.push(format!("T{h}:{m}:{s}"));
            }
        }
    }
    let mss = ["", ".000", ".999", ".99", ".9999"];
    let zones = ["Z", "+0000", "-0000", "+2359", "-2359", "+2400", "+0060", "", "+00:00", "z"];
    // quick: the same grid with 4 years; every other dimension complete
    let years: &[&str] = tier.pick(&["0000", "1969", "2024", "9999"][..], years);
    let mut out = Vec::new();
    for y in years {
        for mo in months {
            for d in days {
                for t in &times {
                    for ms in mss {
                        for z in zones {
                            out.push(format!("{y}-{mo}-{d}{t}{ms}{z}"));
                        }
                    }
                }
            }
        }
    }
    out
}

fn datetime_templates() -> Vec<String> {
    let valid = [
        "1970-01-01",
        "2024-02-29",
        "0000-01-01",
        "9999-12-31",
        "1969-12-31",
        "1970-01-01T00:00:00Z",
        "2024-02-29T23:59:59Z",
        "9999-12-31T23:59:59.999Z",
        "0000-01-01T00:00:00.000Z",
        "2024-01-01T12:34:56.789Z",
        "2024-01-01T00:00:00+0000",
        "2024-01-01T00:00:00-0000",
        "2024-06-15T10:20:30+2359",
        "2024-06-15T10:20:30-2359",
        "2024-06-15T10:20:30.123+0530",
        "2024-06-15T10:20:30.999-0800",
        "1969-12-31T23:59:59.999Z",
        "2000-02-29T00:00:00Z",
        "1900-02-28T23:59:59-0001",
        "9999-12-31T23:59:59.999-2359",
        "0000-01-01T00:00:00.000+2359",
    ];
    let mut out: Vec<String> = Vec::new();
    for v in valid {
        out.push(v.to_string());
        out.extend(mutations(v, "0123569-:.TZ+tz a"));
    }
    // every month end of leap / non-leap / century years, +-1 day
    for y in ["1900", "2000", "2023", "2024", "2100", "0000", "0004", "0100", "0400", "9999"] {
        for m in 1..=12 {
            for d in 27..=32 {
                out.push(format!("{y}-{m:02}-{d:02}"));
                out.push(format!("{y}-{m:02}-{d:02}T23:59:59.999Z"));
            }
        }
    }
    // all offsets hh x mm on boundary values
    for sign in ["+", "-"] {
        for h in ["00", "01", "09", "10", "12", "14", "23", "24", "25", "99"] {
            for m in ["00", "01", "30", "45", "59", "60", "99"] {
                out.push(format!("1970-01-01T00:00:00{sign}{h}{m}"));
                out.push(format!("0000-01-01T00:00:00.000{sign}{h}{m}"));
                out.push(format!("9999-12-31T23:59:59.999{sign}{h}{m}"));
            }
        }
    }
    for s in [
        "", "T", "Z", "1970", "1970-01", "1970-01-01T", "1970-01-01T00", "1970-01-01T00:00", "1970-01-01T00:00Z", "1970-01-01 00:00:00Z", "1970-01-01T00:00:00 Z", "1970-01-01T00:00:00Z ", " 1970-01-01", "1970-01-01\n",
        "1970-01-01T00:00:00Z\n", "19700101", "1970/01/01", "70-01-01", "01970-01-01", "+1970-01-01", "-1970-01-01", "-0001-01-01", "10000-01-01", "1970-1-1", "1970-01-1", "1970-001-01", "1970-01-01T0:0:0Z", "1970-01-01T00:00:00.0Z",
        "1970-01-01T00:00:00.00Z", "1970-01-01T00:00:00.0000Z", "1970-01-01T00:00:00,000Z", "1970-01-01T00:00:00.000", "1970-01-01T00:00:00.Z", "1970-01-01T00:00:00+00", "1970-01-01T00:00:00+000", "1970-01-01T00:00:00+00000",
        "1970-01-01T00:00:00+00:00", "1970-01-01T00:00:00UTC", "1970-01-01T00:00:00GMT", "1970-01-01T00:00:00ZZ", "1970-01-01T00:00:00Z+0000", "1970-01-01T00:00:00+0000Z", "1970-01-01t00:00:00Z", "1970-01-01T00:00:00z", "1970-01-01T00-00-00Z",
        "1970-01-01T00:00:60Z", "2016-12-31T23:59:60Z", "1970-01-01T24:00:00Z", "1970-01-01T23:59:59.999+2359", "１９７０-01-01", "١٩٧٠-01-01", "1970-01-01T٠٠:00:00Z", "1970-01-01😀", "😀", "1970-01-01T00:00:00.000😀", "1970-01-0\u{661}",
    ] {
        out.push(s.to_string());
    }
    out
}

fn ip_grid(tier: Tier) -> Vec<String> {
    let oct = ["0", "1", "9", "10", "127", "128", "224", "239", "240", "255", "256", "00", "01"];
    // quick: the two middle octets range over a cut of the set
    let mid: &[&str] = tier.pick(&["0", "10", "255", "256", "01"][..], &oct[..]);
    let prefixes = ["", "/0", "/8", "/24", "/32", "/33", "/00", "/08", "/", "/a"];
    let mut out = Vec::new();
    for a in oct {
        for b in mid {
            for c in mid {
                for d in oct {
                    for p in prefixes {
                        out.push(format!("{a}.{b}.{c}.{d}{p}"));
                    }
                }
            }
        }
    }
    out
}

fn ip_templates() -> Vec<String> {
    let mut out: Vec<String> = Vec::new();
    let v6 = [
        "::", "::1", "1::", "::2", "1::1", "1:2:3:4:5:6:7:8", "1:2:3:4:5:6:7:8:9", "1:2:3:4:5:6:7", "1:2:3:4:5:6:7::", "::2:3:4:5:6:7:8", "1:2:3:4::5:6:7:8", "1:2:3::5:6:7:8", "1:2:3:4:5:6:7:8::", "::1:2:3:4:5:6:7:8", "1::2::3", "::1::",
        "12345::", "::12345", "::ffff:1.2.3.4", "::1.2.3.4", "1:2:3:4:5:6:1.2.3.4", "64:ff9b::10.0.0.1", "::ffff:a00:1", "::ffff:7f00:1", "fe80::1%eth0", "fe80::1%1", "FF00::", "ff00::", "Ff00::aB", "ff01::1", "feff::", "fe00::", "ffff::",
        "0000:0000:0000:0000:0000:0000:0000:0000", "ffff:ffff:ffff:ffff:ffff:ffff:ffff:ffff", "ABCD:EF01:2345:6789:ABCD:EF01:2345:6789", "abcd:ef01:2345:6789:abcd:ef01:2345:6789", "0:0:0:0:0:0:0:1", "0:0:0:0:0:0:0:0", "00000::", ":::", ":1", "1:", ":",
        "::g", "::-1", "[::1]", " ::1", "::1 ", "::1\n", "1:2:3:4:5:6:7:", ":2:3:4:5:6:7:8", "1:2:3:4:5:6::7:8", "::0001", "::00001", "0::0", "0::", "1:2::", "::7:8",
    ];
    let p6 = ["", "/0", "/1", "/7", "/8", "/9", "/64", "/127", "/128", "/129", "/000", "/08", "/064", "/0128", "/256", "/999", "/1000", "/", "/a", "/-1", "/+8", "/ 8", "/8 ", "/8/8", "//8"];
    for a in v6 {
        for p in p6 {
            out.push(format!("{a}{p}"));
        }
    }
    let v4 = [
        "0.0.0.0", "1.2.3.4", "127.0.0.1", "255.255.255.255", "1.2.3", "1.2.3.4.5", "1.2.3.", ".1.2.3", "1..2.3", "1.2.3.4.", "1.2.3.04", "1.2.3.004", "1.2.3.0004", "1.2.3.256", "1.2.3.999", "1.2.3.1000", "1.2.3.-1", "1.2.3.+1", "1.2.3.0x1", "1.2.3.a",
        "0x7f.0.0.1", "127.1", "2130706433", "1.2.3.4:80", "1,2,3,4", " 1.2.3.4", "1.2.3.4 ", "1.2.3.4\n", "1. 2.3.4", "١.2.3.4", "１.2.3.4", "1.2.3.4😀", "😀", "", "/", "/8", "localhost",
    ];
    let p4 = ["", "/0", "/1", "/3", "/4", "/5", "/7", "/8", "/9", "/24", "/31", "/32", "/33", "/00", "/08", "/032", "/64", "/128", "/255", "/256", "/", "/a", "/-1", "/+8", "/ 8", "/8 ", "/8/8", "//8", "/٨", "/８"];
    for a in v4 {
        for p in p4 {
            out.push(format!("{a}{p}"));
        }
    }
    for v in ["10.0.0.1", "10.0.0.1/32", "255.255.255.255/0", "::1", "ff00::/8", "1:2:3:4:5:6:7:8/128", "abcd:ef01:2345:6789:ABCD:EF01:2345:6789/128", "::ffff:a00:1", "1::8/64"] {
        out.extend(mutations(v, "0129afF:./g "));
    }
    out
}

pub fn gen_ctor(tier: Tier) -> Vec<Case> {
    let mut out: Vec<Case> = Vec::new();
    let push = |ty: usize, v: Vec<String>, near: bool, out: &mut Vec<Case>| {
        for s in v {
            out.push(Case::Ctor { ty, s, near });
        }
    };
    push(0, decimal_templates(), true, &mut out);
    push(3, duration_templates(), true, &mut out);
    push(2, datetime_grid(tier), true, &mut out);
    push(2, datetime_templates(), true, &mut out);
    push(1, ip_grid(tier), true, &mut out);
    push(1, ip_templates(), true, &mut out);
    // every string is also fed to the three constructors it was not written for (a valid
    // duration is not a decimal ...): templates only
    let mut cross: Vec<Case> = Vec::new();
    for (ty, v) in [(0usize, decimal_templates()), (3, duration_templates()), (2, datetime_templates())] {
        for s in v.into_iter().take(400) {
            for other in 0..4 {
                if other != ty {
                    cross.push(Case::Ctor { ty: other, s: s.clone(), near: true });
                }
            }
        }
    }
    out.extend(cross);
    out
}

// ---------------------------------------------------------------------------------------------
// generators: operations over boundary value sets
// ---------------------------------------------------------------------------------------------

fn dt_values() -> Vec<i64> {
    // simplest first, so that the first counterexample of a fingerprint tends to be small
    vec![0, 1, -1, DAY - 1, DAY, DAY + 1, -DAY + 1, -DAY, -DAY - 1, TODATE_MIN + 1, TODATE_MIN, TODATE_MIN - 1, i64::MAX - 1, i64::MAX, i64::MIN + 1, i64::MIN]
}

fn dur_values() -> Vec<i64> {
    let mut v = dt_values();
    v.extend([-3_600_000, -60_000, -1000, -999, 999, 1000, 59_999, 60_000, 3_599_999, 3_600_000, -1999, 1999]);
    v
}

fn dec_values() -> Vec<i64> {
    vec![0, 1, -1, 5_000, -5_000, 9_999, 10_000, 10_001, -9_999, -10_000, -10_001, i64::MAX - 1, i64::MAX, i64::MIN + 1, i64::MIN]
}

fn ip_values() -> Vec<&'static str> {
    vec![
        "0.0.0.0/0", "0.0.0.0", "0.0.0.0/1", "9.255.255.255", "10.0.0.0/8", "10.0.0.1", "10.0.0.1/8", "10.0.0.0/24", "10.0.0.255", "10.0.1.0", "10.0.0.0/31", "10.0.0.1/31", "10.255.255.255", "11.0.0.0", "10.0.0.0/7", "126.255.255.255", "127.0.0.0",
        "127.0.0.0/8", "127.0.0.1", "127.0.0.1/7", "127.0.0.1/9", "127.255.255.255", "128.0.0.0", "128.0.0.0/1", "223.255.255.255", "224.0.0.0", "224.0.0.0/4", "224.0.0.0/3", "224.0.0.1/5", "239.255.255.255", "240.0.0.0", "255.255.255.255",
        "255.255.255.255/0", "255.255.255.255/31", "::/0", "::", "::/127", "::/1", "::1", "::1/127", "::2", "8000::/1", "7fff:ffff:ffff:ffff:ffff:ffff:ffff:ffff", "8000::", "ff00::/8", "ff00::", "ff00::/7", "ff00::/9", "ff01::1",
        "feff:ffff:ffff:ffff:ffff:ffff:ffff:ffff", "ffff:ffff:ffff:ffff:ffff:ffff:ffff:ffff", "ffff:ffff:ffff:ffff:ffff:ffff:ffff:ffff/0", "::ffff:7f00:1", "::ffff:a00:1", "::7f00:1", "::a00:1", "1::/64", "1::1", "1:0:0:1::",
    ]
}

fn ip_e(s: &str) -> E {
    ctor_e(1, s)
}

const RELS: [BinOp; 6] = [BinOp::Lt, BinOp::Le, BinOp::Gt, BinOp::Ge, BinOp::Eq, BinOp::Neq];
const CONVS: [&str; 5] = ["toMilliseconds", "toSeconds", "toMinutes", "toHours", "toDays"];

pub fn gen_ops(tier: Tier) -> Vec<Case> {
    let mut out: Vec<Case> = Vec::new();
    let mut push = |g: &str, e: E| out.push(Case::Expr { group: g.to_string(), e });
    let dts = dt_values();
    let durs = dur_values();
    let decs = dec_values();
    let ips = ip_values();
    // operands evaluate to the intended values
    for x in &dts {
        push("operand-datetime", dt_e(*x));
    }
    for x in &durs {
        push("operand-duration", dur_e(*x));
    }
    for x in &decs {
        push("operand-decimal", dec_e(*x));
    }
    for s in &ips {
        push("operand-ip", ip_e(s));
    }
    // ---- decimal
    for a in &decs {
        for b in &decs {
            for f in ["lessThan", "lessThanOrEqual", "greaterThan", "greaterThanOrEqual"] {
                push(&format!("dec-{f}"), call(f, vec![dec_e(*a), dec_e(*b)]));
            }
            for op in RELS {
                push(&format!("dec-rel-{op:?}"), E::bin(op, dec_e(*a), dec_e(*b)));
            }
            for c in &decs {
                push("dec-set3", E::Set(vec![dec_e(*a), dec_e(*b), dec_e(*c)]));
                push("dec-set-contains", E::bin(BinOp::Contains, E::Set(vec![dec_e(*a), dec_e(*b)]), dec_e(*c)));
            }
        }
    }
    // ---- ip
    for a in &ips {
        for f in ["isIpv4", "isIpv6", "isLoopback", "isMulticast"] {
            push(&format!("ip-{f}"), call(f, vec![ip_e(a)]));
        }
        for b in &ips {
            push("ip-isInRange", call("isInRange", vec![ip_e(a), ip_e(b)]));
            push("ip-eq", E::bin(BinOp::Eq, ip_e(a), ip_e(b)));
            push("ip-set2", E::Set(vec![ip_e(a), ip_e(b)]));
            push("ip-rel-Lt", E::bin(BinOp::Lt, ip_e(a), ip_e(b)));
        }
    }
    // triples: ranges nested three deep and sets; quick uses every other value for the third
    let step = tier.pick(3, 1);
    for a in &ips {
        for b in &ips {
            for c in ips.iter().step_by(step) {
                push(
                    "ip-isInRange-triple",
                    E::Rec(vec![
                        ("ab".to_string(), call("isInRange", vec![ip_e(a), ip_e(b)])),
                        ("bc".to_string(), call("isInRange", vec![ip_e(b), ip_e(c)])),
                        ("ac".to_string(), call("isInRange", vec![ip_e(a), ip_e(c)])),
                    ]),
                );
                push("ip-set-contains", E::bin(BinOp::Contains, E::Set(vec![ip_e(a), ip_e(b)]), ip_e(c)));
            }
        }
    }
    // ---- datetime / duration
    for a in &dts {
        push("dt-toDate", call("toDate", vec![dt_e(*a)]));
        push("dt-toTime", call("toTime", vec![dt_e(*a)]));
        push("dt-toDate-toTime", call("toTime", vec![call("toDate", vec![dt_e(*a)])]));
        push("dt-toDate-plus-toTime", E::bin(BinOp::Eq, call("offset", vec![call("toDate", vec![dt_e(*a)]), call("toTime", vec![dt_e(*a)])]), dt_e(*a)));
        for f in CONVS {
            push(&format!("dt-toTime-{f}"), call(f, vec![call("toTime", vec![dt_e(*a)])]));
        }
        for b in &dts {
            push("dt-durationSince", call("durationSince", vec![dt_e(*a), dt_e(*b)]));
            for op in RELS {
                push(&format!("dt-rel-{op:?}"), E::bin(op, dt_e(*a), dt_e(*b)));
            }
            for f in CONVS {
                push(&format!("dt-durationSince-{f}"), call(f, vec![call("durationSince", vec![dt_e(*a), dt_e(*b)])]));
            }
            push("dt-set2", E::Set(vec![dt_e(*a), dt_e(*b)]));
        }
        for d in &durs {
            push("dt-offset", call("offset", vec![dt_e(*a), dur_e(*d)]));
            push("dt-offset-toDate", call("toDate", vec![call("offset", vec![dt_e(*a), dur_e(*d)])]));
            push("dt-offset-toTime", call("toTime", vec![call("offset", vec![dt_e(*a), dur_e(*d)])]));
            push("dt-rel-mixed", E::bin(BinOp::Lt, dt_e(*a), dur_e(*d)));
            push("dt-eq-mixed", E::bin(BinOp::Eq, dt_e(*a), dur_e(*d)));
        }
    }
    for a in &durs {
        for f in CONVS {
            push(&format!("dur-{f}"), call(f, vec![dur_e(*a)]));
        }
        for b in &durs {
            for op in RELS {
                push(&format!("dur-rel-{op:?}"), E::bin(op, dur_e(*a), dur_e(*b)));
            }
            push("dur-set2", E::Set(vec![dur_e(*a), dur_e(*b)]));
        }
    }
    // triples
    for a in &dts {
        for d in &durs {
            for b in &dts {
                let off = || call("offset", vec![dt_e(*a), dur_e(*d)]);
                push("tri-offset-durationSince", call("durationSince", vec![off(), dt_e(*b)]));
                push("tri-durationSince-offset", call("durationSince", vec![dt_e(*b), off()]));
                push("tri-offset-lt", E::bin(BinOp::Lt, off(), dt_e(*b)));
                push("tri-offset-le", E::bin(BinOp::Le, off(), dt_e(*b)));
                push("tri-offset-eq", E::bin(BinOp::Eq, off(), dt_e(*b)));
                let since = || call("durationSince", vec![dt_e(*a), dt_e(*b)]);
                push("tri-durationSince-lt", E::bin(BinOp::Lt, since(), dur_e(*d)));
                push("tri-durationSince-le", E::bin(BinOp::Le, since(), dur_e(*d)));
                push("tri-durationSince-eq", E::bin(BinOp::Eq, since(), dur_e(*d)));
                push("tri-offset-back", call("offset", vec![dt_e(*b), since()]));
            }
            for d2 in &durs {
                push("tri-offset-offset", call("offset", vec![call("offset", vec![dt_e(*a), dur_e(*d)]), dur_e(*d2)]));
            }
        }
    }
    // ---- kinds: every function on every kind of receiver / argument (type errors, never
    // another class; equality is total)
    let reps: Vec<(&str, E)> = vec![
        ("decimal", dec_e(15_000)),
        ("ip", ip_e("10.0.0.1")),
        ("datetime", dt_e(DAY)),
        ("duration", dur_e(1000)),
        ("long", E::Long(1)),
        ("string", E::str("1.0")),
        ("bool", E::Bool(true)),
        ("set", E::Set(vec![dec_e(1)])),
        ("bad-decimal", ctor_e(0, "1")),
        ("bad-duration", ctor_e(3, "")),
    ];
    for (fname, arity) in rx::EXT_FUNCS {
        if rx::is_constructor(fname) {
            for (k, x) in &reps {
                push(&format!("kind-{fname}-{k}"), call(fname, vec![x.clone()]));
            }
        } else if *arity == 1 {
            for (k, x) in &reps {
                push(&format!("kind-{fname}-{k}"), call(fname, vec![x.clone()]));
            }
        } else {
            for (k, x) in &reps {
                for (k2, y) in &reps {
                    push(&format!("kind-{fname}-{k}-{k2}"), call(fname, vec![x.clone(), y.clone()]));
                }
            }
        }
    }
    for (k, x) in &reps {
        for (k2, y) in &reps {
            for op in [BinOp::Lt, BinOp::Le, BinOp::Eq] {
                push(&format!("kind-{op:?}-{k}-{k2}"), E::bin(op, x.clone(), y.clone()));
            }
        }
    }
    // ---- equality by represented value across spellings, also inside sets
    let spell: [(usize, &[&str]); 4] = [
        (
            0,
            &[
                "1.0", "1.00", "1.000", "1.0000", "01.0", "001.00", "1.0001", "-0.0", "0.0", "0.0000", "-0.0000", "00.00", "0.1", "0.10", "0.1000", "-1.5", "-1.50", "-01.5000", "1.5", "922337203685477.5807", "0922337203685477.5807",
                "-922337203685477.5808", "1.00000", "1",
            ],
        ),
        (
            1,
            &[
                "10.0.0.1", "10.0.0.1/32", "10.0.0.0/8", "10.0.0.1/8", "10.0.0.0/31", "10.0.0.1/31", "::1", "0:0:0:0:0:0:0:1", "::1/128", "0::1", "0000:0000:0000:0000:0000:0000:0000:0001", "::0001", "::1/127", "FF00::/8", "ff00::/8", "ff00:0::/8",
                "Ff00:0:0:0:0:0:0:0/8", "::ffff:a00:1", "::a00:1", "0.0.0.0/0", "::/0", "0.0.0.0", "::", "10.0.0.1/032",
            ],
        ),
        (
            2,
            &[
                "1970-01-01", "1970-01-01T00:00:00Z", "1970-01-01T00:00:00.000Z", "1970-01-01T00:00:00+0000", "1970-01-01T00:00:00-0000", "1970-01-01T00:00:00.000-0000", "1970-01-01T01:00:00+0100", "1969-12-31T23:00:00-0100",
                "1970-01-01T23:59:00+2359", "1969-12-31T00:01:00-2359", "1970-01-01T00:00:00.001Z", "1969-12-31T23:59:59.999Z", "1970-01-01T00:00:00+0001", "1970-01-01T00:00:00-0001", "1969-12-31T23:59:00-0001", "1970-01-02",
                "1970-01-02T00:00:00+0000", "1970-01-02T23:59:00+2359", "1970-01-01T24:00:00Z", "1970-01-02T00:00:00+2400",
            ],
        ),
        (
            3,
            &[
                "0ms", "0s", "0d", "-0ms", "0d0h0m0s0ms", "-0d", "1d", "24h", "1440m", "86400s", "86400000ms", "0d24h", "23h60m", "23h59m60s", "23h59m59s1000ms", "-1d", "-24h", "-86400000ms", "1s", "1000ms", "0001s", "1ms", "-1ms", "1d1d",
            ],
        ),
    ];
    for (ty, list) in spell {
        let name = TYS[ty];
        for a in list {
            for b in list {
                push(&format!("spell-{name}-eq"), E::bin(BinOp::Eq, ctor_e(ty, a), ctor_e(ty, b)));
                push(&format!("spell-{name}-neq"), E::bin(BinOp::Neq, ctor_e(ty, a), ctor_e(ty, b)));
                push(&format!("spell-{name}-set2"), E::Set(vec![ctor_e(ty, a), ctor_e(ty, b)]));
                push(&format!("spell-{name}-containsAll"), E::bin(BinOp::ContainsAll, E::Set(vec![ctor_e(ty, a)]), E::Set(vec![ctor_e(ty, b)])));
                for c in list.iter().step_by(step) {
                    push(&format!("spell-{name}-set3"), E::Set(vec![ctor_e(ty, a), ctor_e(ty, b), ctor_e(ty, c)]));
                    push(&format!("spell-{name}-contains"), E::bin(BinOp::Contains, E::Set(vec![ctor_e(ty, a), ctor_e(ty, b)]), ctor_e(ty, c)));
                }
            }
        }
    }
    // datetimes built by offset vs by string
    for (s, ms) in [("1970-01-01", 0i64), ("1970-01-02", DAY), ("1969-12-31T23:59:59.999Z", -1), ("9999-12-31T23:59:59.999Z", 253_402_300_799_999), ("0000-01-01", -62_167_219_200_000)] {
        for delta in [-1i64, 0, 1] {
            push("spell-datetime-offset-eq", E::bin(BinOp::Eq, ctor_e(2, s), dt_e(ms + delta)));
            push("spell-datetime-offset-set", E::Set(vec![ctor_e(2, s), dt_e(ms + delta), call("offset", vec![ctor_e(2, s), dur_e(delta)])]));
        }
    }
    out
}

// ---------------------------------------------------------------------------------------------
// driver
// ---------------------------------------------------------------------------------------------

fn replay(path: &str) -> i32 {
    let doc: J = match std::fs::read_to_string(path).ok().and_then(|s| serde_json::from_str(&s).ok()) {
        Some(d) => d,
        None => {
            eprintln!("cannot read replay file {path}");
            return 2;
        }
    };
    if doc["property"].as_str() != Some("C07") {
        eprintln!("replay file is not a C07 case");
        return 2;
    }
    let Ok(case) = serde_json::from_value::<Case>(doc["case"]["c"].clone()) else {
        eprintln!("replay file holds no C07 case");
        return 2;
    };
    if let Err(m) = oracle_selfcheck() {
        eprintln!("MACHINERY ERROR: reference self-check failed: {m}");
        return 2;
    }
    quiet_panics();
    let p = Prep::new();
    let mut l = Local::default();
    println!("replaying `{}`", case.text());
    let res = std::panic::catch_unwind(std::panic::AssertUnwindSafe(|| check_case(&case, &p, &mut l)));
    match res {
        Err(pn) => {
            println!("  panic: {}", panic_msg(&pn));
            println!("VIOLATION property=C07 replay={path}");
            1
        }
        Ok(bad) => {
            for (fp, what) in &bad {
                println!("  [{fp}] {what}");
            }
            if bad.is_empty() {
                println!("no mismatch on replay");
                0
            } else {
                println!("VIOLATION property=C07 replay={path}");
                1
            }
        }
    }
}

pub fn run(tier: Tier, replay_file: Option<&str>) -> i32 {
    if let Some(p) = replay_file {
        return replay(p);
    }
    if let Err(m) = oracle_selfcheck() {
        eprintln!("MACHINERY ERROR: reference self-check failed: {m}");
        return 2;
    }
    // the operand value sets must be valid
    for s in ip_values() {
        if rx::parse_ip(s).is_none() {
            eprintln!("MACHINERY ERROR: ip boundary value {s} is not valid for the reference");
            return 2;
        }
    }
    let ctx = Ctx::new("C07", tier);
    quiet_panics();
    let n = sweep_len(tier);
    let mut swept = 0;
    swept += sweep(&ctx, 0, &DEC_ALPHA, n);
    swept += sweep(&ctx, 3, &DUR_ALPHA, n);
    swept += sweep(&ctx, 1, &IP_ALPHA, n);
    ctx.set_info("swept_strings", json!(swept));
    let mut cases = gen_ctor(tier);
    let n_ctor = cases.len();
    cases.extend(gen_ops(tier));
    let total = cases.len();
    ctx.set_info("template_and_grid_strings", json!(n_ctor));
    ctx.set_info("operation_expressions", json!(total - n_ctor));
    if ctx.seed != 0 && total > 0 {
        let k = (ctx.seed as usize) % total;
        cases.rotate_left(k);
    }
    cases.par_chunks(256).enumerate().for_each(|(ci, chunk)| {
        let p = Prep::new();
        let mut l = Local::default();
        for (j, c) in chunk.iter().enumerate() {
            run_case(&ctx, c, &p, &mut l);
            ctx.sample_at(ci * 256 + j, total, || json!({"case": c.text()}));
        }
        ctx.merge(l);
    });
    ctx.finish(
        "case = (constructor, argument string) or one operation expression over boundary values; non-trivial = the reference accepts the string, or the string is a boundary template / grid point / 1-char mutation of a valid string (not from the all-strings sweep), or the case is an operation expression",
        json!({
            "tier": tier.name(),
            "decimal": {"all_strings_len": n, "alphabet": "019-.+ a", "templates": decimal_templates().len()},
            "duration": {"all_strings_len": n, "alphabet": "019dhms-", "templates": duration_templates().len()},
            "datetime": {"grid": datetime_grid(tier).len(), "grid_years": tier.pick(4, 8), "templates_and_mutations": datetime_templates().len()},
            "ip": {"v4_grid": ip_grid(tier).len(), "v4_grid_middle_octets": tier.pick(5, 13), "templates_and_mutations": ip_templates().len(), "all_strings_len": n, "alphabet": "01f:./"},
            "operations": {"datetime_values": dt_values().len(), "duration_values": dur_values().len(), "decimal_values": dec_values().len(), "ip_values": ip_values().len(), "third_operand_step": tier.pick(3, 1)},
            "paths": ["text+core evaluator (internal representation)", "RestrictedExpression::new_* in Context", "eval_expression"],
        }),
        &[
            "refsem::ext parsers and arithmetic are the documented formats (hand-derived table and closed-form calendar cross-check run first; failure = exit 2)",
            "overflow of offset / durationSince / toDate and every constructor rejection must be an extension error",
            "ipaddr equality is (address, prefix); isLoopback / isMulticast = range containment in 127.0.0.0/8, ::1/128, 224.0.0.0/4, ff00::/8",
            "isInRange is checked with exactly two operands",
        ],
        true,
    )
}
