#!/bin/bash
# tools/confirm_seed.sh <mutout-dir> <n> <seed-id>
# Confirms an independently produced seeded change in a scratch worktree:
#   patch applies; demo fails with it and passes without it; the pinned suite loses no test.
# On success copies patch/demo/meta to /verif/seeded/<seed-id>/ and writes confirm.json.
set -u
src="$1"; n="$2"; sid="$3"; slot="${4:-A}"
# persistent worktree per slot (warm incremental build); reset to /repo HEAD before each use
W=/tmp/seedwt/slot$slot
if [ ! -d "$W/.git" ] && [ ! -f "$W/.git" ]; then
  git -C /repo worktree prune
  git -C /repo worktree add --detach "$W" HEAD >/dev/null 2>&1 || { echo "worktree add failed"; exit 2; }
  cp -r /repo/target "$W/target" 2>/dev/null
fi
git -C "$W" checkout -q -- . ; git -C "$W" clean -fdq -e target; git -C "$W" checkout -q --detach "$(git -C /repo rev-parse HEAD)"
meta="$src/meta$n.json"; patch="$src/patch$n.diff"; demo="$src/demo$n.rs"
demo_path=$(python3 -c "import json;print(json.load(open('$meta'))['demo_path'])")
demo_cmd=$(python3 -c "import json;print(json.load(open('$meta'))['demo_cmd'])")
log=/tmp/seedwt/$sid.log; : > "$log"
res() { echo "$1" | tee -a "$log"; }
cd "$W" || exit 2
mkdir -p "$(dirname "$demo_path")"; cp "$demo" "$demo_path"
# demo passes on clean tree
if (CARGO_NET_OFFLINE=true eval "$demo_cmd" >>"$log" 2>&1); then res "demo_passes_without_patch=true"; cleanok=1; else res "demo_passes_without_patch=false"; cleanok=0; fi
if git apply "$patch" >>"$log" 2>&1; then res "patch_applies=true"; else res "patch_applies=false"; exit 1; fi
if (CARGO_NET_OFFLINE=true eval "$demo_cmd" >>"$log" 2>&1); then res "demo_fails_with_patch=false"; failok=0; else res "demo_fails_with_patch=true"; failok=1; fi
rm -f "$demo_path"
python3 /verif/tools/suite_diff.py "$W" --fast >>"$log" 2>&1
missing=$(grep -o "missing_from_pass=[0-9]*" "$log" | tail -1 | cut -d= -f2)
res "suite_missing_from_pass=${missing:-unknown}"
ok=0
if [ "$cleanok" = 1 ] && [ "$failok" = 1 ] && [ "${missing:-x}" = 0 ]; then
  ok=1
  mkdir -p /verif/seeded/$sid
  cp "$patch" /verif/seeded/$sid/patch.diff; cp "$demo" /verif/seeded/$sid/demo.rs; cp "$meta" /verif/seeded/$sid/meta.json
  python3 - <<PY
import json
m=json.load(open('/verif/seeded/$sid/meta.json'))
m['confirmed']={'demo_passes_without_patch':True,'demo_fails_with_patch':True,'suite_missing_from_pass':0,'how':'tools/confirm_seed.sh in a scratch worktree of /repo HEAD (pinned nextest command via tools/suite_diff.py)'}
json.dump(m,open('/verif/seeded/$sid/meta.json','w'),indent=1)
PY
fi
cd "$W" && git checkout -q -- . && git clean -fdq -e target
cd /
res "confirmed=$ok"
