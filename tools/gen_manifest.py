#!/usr/bin/env python3
"""Generate /verif/MANIFEST.json from the table below (single source of truth)."""
import json
ALL = ["C%02d" % i for i in range(1, 21)]
CHECKS = {
 "C19": dict(
   technique="bounded-exhaustive enumeration of front-end calls (C01 policy tuples n<=2/3 x 5 input shapes x id spellings x schema syntax x validateRequest x data form x 5-7 requests for is_authorized_json; validate/format/check_parse/convert grids) compared with the plain Rust API, explicit-state BFS to fixpoint over the stateful cache (81 states x 36 ops, each history in a fresh thread), and a CLI grid run through the real `cedar` binary",
   text="Model checking: the FFI legs enumerate every call shape of the bounded space and compare decision, reasons, erroring ids, evaluation/validation messages and converted documents with the same inputs assembled through the Rust API (and the reference authorizer); the stateful cache is an explicit-state search over preparse/authorize operations in lock-step with a name->object model, observing the whole cache after every transition and requiring a fresh thread to see an empty cache; the CLI leg runs the real binary and compares exit status and printed output.",
   note="Trusted base: the Rust API as comparison partner (itself checked by C01-C12), refsem authorizer. The CLI is built from /repo by the check (dev profile) into /verif/target/cli. Messages of input-assembly failures are not compared. cedar-wasm is not covered (re-exports).",
   design="§3 C19, §8"),
 "C20": dict(
   technique="bounded-exhaustive sweeps in child processes: all token sequences <=3/4 over Cedar policy and schema token alphabets spliced into 4-5 positions, all byte strings <=2 (quick: a stated cut), string-escape and extension-value strings, nesting generators to depth 48, every single (thorough: pairs of) structural mutation of 17 JSON seed documents, a grid of extension calls in every JSON spelling x every function x 0-3 arguments, byte substitutions/deletions/prefixes of text and protobuf seeds, into 77 entry points; every Ok object continues down the whole pipeline and every error is rendered; oracle = returns and terminates",
   text="Model checking in the small-scope sense for a safety property (no panic / abort / non-termination): the complete space of short inputs over small alphabets plus single-deviation mutations of valid documents is fed to every public entry point under catch_unwind in sharded child processes (so aborts and stack overflows are attributed to one input), every accepted object is pushed through print / to_json / to_pst / format / validate (strict, permissive, levels) / authorize / partial / TPE / batched / manifest / link / merge / protobuf, and every error or warning is rendered with Display, Debug, the miette graphical handler and ffi::DetailedError.",
   note="Trusted base: the child-process watchdog (non-termination = >10 s CPU when re-run alone). Bounded sweep, not a fuzzer: inputs longer than the bounds appear only as mutations of seed documents; nesting depth <= 48 as the property states. Findings: F8 (EST printer indexed args[0], fixed in /repo) and F9 (protobuf encode of an unknown panics with unimplemented!, known finding listed per entry point).",
   design="§3 C20, §8"),
 "C14": dict(
   technique="bounded-exhaustive enumeration of (strictly valid policy set x partial view x consistent completion): partial views are obtained by erasing parts (principal/resource id, context, per-entity attrs/ancestors/tags/existence; ancestor sets given closed or as direct parents only) of concrete environments; policies = type-directed C03 family + hand-written TPE stressors + compositional families (error-capable operand x container kind x known operand; entity mentioned at exactly one operand position; has over request-entity attributes); TPE by the real code; every concrete environment that the library's own consistency checks accept is a completion and is evaluated by the real concrete evaluator; permission queries compared with brute force",
   text="Model checking in the small-scope sense: for every policy set and every partial view of the bounded space, all consistent concrete completions are enumerated; definite decisions must equal the concrete decision on each, each residual policy must be satisfied/unsatisfied/erroring exactly when its original is, all views of the response (policies, policy_set, get_policy, residual_policies, reauthorize) must present the same residuals, and query_resource/query_principal/query_action must equal brute-force authorization over the store. Soundness of residual simplifications quantifies over completions, which shape assertions cannot discharge but enumeration can.",
   note="Trusted base: the real concrete evaluator/authorizer (checked in C01/C02), the library's check_consistency as the definition of 'consistent'. Finding F1 (policy_set returned originals) was reproduced by this check and repaired by a fix: commit in /repo. The policy family is shared with C15 and C18.",
   design="§3 C14, §8"),
 "C04": dict(
   technique="explicit-state BFS (stateright) to fixpoint over cedar_policy::Entities histories (add/upsert/remove with all batches of size 1 and ordered size 2 over 3-4 uids incl. self and dangling parents), every transition executed on the real store in lock-step with a parent-graph reference model; plus exhaustive from_entities over all parent graphs x insertion orders and all 2^9 x 2^9 hand-built stores for EnforceAlreadyComputed",
   text="Explicit-state model checking of the real implementation: the reachable state space of the entity store over a 3-4 uid universe is finite and is explored completely; each transition calls the real API once and the canonical state read back from the implementation is compared with the reference model (direct parents, indirect ancestors = strict reachability, disjointness), Err iff the resulting graph is cyclic, failed ops change nothing, and for all ordered pairs ancestors()/is_ancestor_of/`in` through the Authorizer equal reachability. History-quantified claims about incrementally maintained closures are exactly what exhaustive state exploration decides.",
   note="Trusted base: refsem::Store reachability, read-back through AsRef<ast::Entity>. Re-adding a present uid is not predicted (documented quirk), only the invariants on Ok. Bounds: 3 uids + a dangling-only parent (quick), 4 uids (thorough), batches <= 2.",
   design="§3 C04, §8"),
 "C07": dict(
   technique="bounded-exhaustive enumeration of constructor strings (all strings <=6/7 over per-type alphabets, boundary templates, datetime product grid, ip octet/prefix grids, IPv6 templates, 1-char mutations) and of all pairs/triples of boundary values for every operation, run on the real extension code through 3 paths and compared with reference parsers/arithmetic (i128, own calendar and CIDR math)",
   text="Model checking in the small-scope sense: the complete space of short constructor strings plus structured boundary grids is enumerated; accept <=> accept, accepted values are compared through their internal representation and through observer functions, rejections must be extension errors, and every operation on every pair/triple of boundary values must give the exact result or an extension (overflow) error. Off-by-one and sign errors at boundaries are exactly what exhaustive boundary grids expose.",
   note="Trusted base: refsem::ext reference implementation (self-checked against ~140 hand-derived expectations and a closed-form calendar at start), std IpAddr Debug output. Inputs longer than the bounds only as templates/mutations.",
   design="§3 C07, §8"),
 "C08": dict(
   technique="explicit-state BFS (stateright) over cedar_policy::PolicySet histories (add, add_template, link with 6 bindings, unlink, remove_static, remove_template, merge with/without renaming; colliding ids; depth 3/5 from 3 initial sets), lock-step with a three-map reference model; authorization on every new state compared with textual substitution of links and with the reference authorizer",
   text="Explicit-state model checking of the real implementation: every operation history up to the depth bound over a colliding id pool is executed on the real PolicySet; after every transition the full read-back (policies, templates, links with template ids and bindings, effects, annotations, counts, API mirror maps vs core maps) must equal the model, Ok/Err must follow the documented preconditions, a failed op must change nothing, merge renamings must be injective/fresh/covering, and authorization must equal that of the set with each link replaced by the textually substituted static policy.",
   note="Trusted base: three-map reference model, refsem::Pol::substitute + reference authorizer. get_linked_policies on a static id and renaming of identical-content overlaps in merge are not predicted.",
   design="§3 C08, §8"),
 "C09": dict(
   technique="deviation-bounded exhaustive enumeration of schemas: every subset of <=2/3 of 18 schema features over a minimal schema, written in both syntaxes, translated both ways by the real code, reloaded and compared for equality and for identical validation verdicts",
   text="Model checking in the small-scope sense with deviation bounding: the space of all schemas with at most 2 (quick) / 3 (thorough) features switched on is enumerated completely; each is loaded from both syntaxes, translated JSON->Cedar and Cedar->JSON(->Cedar) by the real code and reloaded; ValidatorSchema equality, a 25-policy validation battery and 17 request/entity validations must agree across all variants. Name-resolution and quoting errors show only for particular feature combinations, which pairwise/triple-wise enumeration covers.",
   note="Trusted base: the feature renderers (a combination rejected in either syntax is counted, not judged), ValidatorSchema PartialEq. Translation returning Err is skipped and counted.",
   design="§3 C09, §8"),
 "C10": dict(
   technique="bounded-exhaustive enumeration of values to depth 2 (16 atoms, sets, records with escape-like keys) placed in entity attributes, tags and contexts; JSON round trip, schema-derived parsing, and every implicit/explicit choice vector per entity-reference / extension-value occurrence compared with the explicit form parsed without schema; the same round trip for contexts holding an unknown next to each value (restricted-expression serialisation path)",
   text="Model checking in the small-scope sense: all values up to depth 2 over the atom alphabet are serialised and parsed back by the real code (deep_eq), reserved keys must be refused or round-trip exactly, and for the schema derived for each datum every vector of implicit|explicit|bare-constructor-argument spellings (<= 4 occurrences) must parse to the same data as the explicit form without schema. The JSON layer dispatches on expected type x escape spelling x value shape, a product this enumerates.",
   note="Trusted base: refsem val_json renderer, the library's deep_eq (checked against reachability in C04), bind::abs_value for contexts.",
   design="§3 C10, §8"),
 "C12": dict(
   technique="deviation-bounded exhaustive enumeration: programs (operator shapes depth <=2, scopes, annotations, condition lists, policy sets, hand-written lexical corner texts) x 0/1/2 comments inserted at every token boundary (7 comment kinds) x whitespace layouts x (line_width, indent_width) grid; formatter output re-parsed and compared by a loc-free abstraction, comment sequences compared by an independent scanner",
   text="Model checking in the small-scope sense with deviation bounding (0, 1, 2 inserted comments): for every program of the bounded space, every token boundary and every configuration the real formatter is run; it must succeed, the output must parse to structurally identical policies (ids, effect, annotations, scope, conditions) in the same order, keep the exact sequence of comments, be idempotent without comments, and re-formatting (same and different config) must preserve all of it. The formatter's own soundness check is never consulted.",
   note="Trusted base: the harness tokenizer/comment scanner (self-checked: must find exactly the inserted comments), bind::abs_expr. Strings inside expressions use a small alphabet (the large content alphabet is C05's).",
   design="§3 C12, §8"),
 "C13": dict(
   technique="bounded-exhaustive enumeration of (unknown kind x policy set x substitution): 10 kinds of unknown input (incl. an unknown reached only through another unknown, and a partial store whose omitted entity is completed in 8 shapes), policy bodies placing an unknown-touching operand (every operator kind applied to the untyped unknown) against constant/erroring operands in 19 shapes, all substitutions from small typed domains; partial authorization by the real code compared with authorizing the substituted concrete inputs (real and reference authorizer)",
   text="Model checking in the small-scope sense: soundness of partial evaluation relates a residual to every completion of the unknowns; the check enumerates every substitution from finite domains for every policy set of the bounded space and compares definite decisions, must/may-be-determining sets, definitely satisfied/errored/trivially false policies and reauthorize results with the concrete response computed from scratch.",
   note="Trusted base: reference authorizer (cross-checks the concrete side). Substitution domains have 3-13 values per unknown (for the untyped context attribute: every value kind); wrong-type values only for untyped unknowns.",
   design="§3 C13, §8"),
 "C15": dict(
   technique="bounded-exhaustive enumeration of (valid policy set x conformant environment x loader answer policy x iteration budget 0..n+1) with the loader call log checked as the trace; batched authorization by the real code compared with ordinary authorization",
   text="Model checking of the loader/budget state machine: for every policy set and environment of the bounded space, every budget from 0 up to the first decision, the next one and n+1 is run against an exact and a generous loader; any decision must equal ordinary authorization, errors must be insufficient-iterations only, decisions must be monotone in the budget, budget n+1 must decide, and the loader must never be asked for the same uid twice or more often than the budget.",
   note="Trusted base: ordinary Authorizer (itself checked in C01/C02). The generous loader hands out ancestors again on every call (finding F5, fixed). Budgets between first+1 and n+1 are skipped. Policy family shared with C14; requests include a resource no store holds.",
   design="§3 C15, §8"),
 "C16": dict(
   technique="bounded-exhaustive enumeration of dereference-chain policies (all entity-valued access paths <=2/3 steps x terminal observation x wrappers) validated at levels 0..5 by the real validator in strict AND permissive mode (incl. shapes only permissive validation accepts and an action hierarchy with literals of the own / another action); for each mode and level the accepted set is authorized on every conformant (store, request) over the full store vs the level-n slice built from the definition",
   text="Model checking in the small-scope sense: sufficiency of the level-n slice is checked by actually building the slice from its definition and re-authorizing, for every policy accepted at level n and every store/request of the bounded universe (entities present/absent along the chains); monotonicity in n is checked on every policy. An under-count in the level checker (record literal, if-branch, `in`, tags) shows up as a different response on the slice.",
   note="Trusted base: lvl.rs::level_slice (RFC-76 reading: level 0 loads nothing). Evidence reports how many policies have a tight minimal level (oracle has teeth).",
   design="§3 C16, §8"),
 "C17": dict(
   technique="bounded-exhaustive enumeration of the C16 policy family (singles and pairs; attribute chains through User / Group / Doc typed attributes, sets of entities, tags with computed keys, entity and action literals): compute_entity_manifest, then slice_entities on every conformant (store, request) and authorization on slice vs full store",
   text="Model checking in the small-scope sense: for every strictly valid policy set of the bounded family for which a manifest is computed, and every store/request of the bounded universe, the store is sliced by the real slicing code and authorization on the slice must equal authorization on the full store (decision, determining and erroring policies).",
   note="Trusted base: the real authorizer as comparison partner. A refusal of compute_entity_manifest (e.g. tags) is not a violation. The entity-manifest feature is compiled in by the harness (the baseline suite does not). The full store holds the schema's action entities. Finding F7 (irrelevant policies got an empty manifest) was found by this check and repaired by a fix: commit in /repo.",
   design="§3 C17, §8"),
 "C18": dict(
   technique="bounded-exhaustive enumeration of (strictly valid policy / policy pair / policy set / set pair x conformant concrete environment): SymEnv::from_concrete_env + compile_with_custom_symenv by the real code, asserts must be literals and all-true must coincide with the concrete evaluator/authorizer verdict",
   text="Model checking in the small-scope sense: for every policy of the bounded family and every concrete environment the symbolic compiler is run on the literal environment; every verification condition (never_errors, always/never_matches, matches_equivalent/implies/disjoint, always_allows/denies, implies, equivalent, disjoint) must fold to constants and agree with concrete evaluation. One genuine disagreement class (environments with missing entities) is listed as known finding F4.",
   note="Trusted base: real evaluator/authorizer for the concrete side (checked in C01/C02). Says nothing about non-literal terms or the SMT encoding.",
   design="§3 C18, §8"),
 "C03": dict(
   technique="bounded-exhaustive enumeration of policies over a schema vocabulary (type-directed must-accept set, guard x access x shape grid, all depth-1/2 operator applications over 41 typed atoms, several action scopes; plus a self-contained world of actions whose group lives in another namespace); each is validated by the real validator and every accepted one is evaluated by the real evaluator on every conformant (request, store) of a small universe, with a typed-AST walk checking value-in-static-type at every reached sub-expression",
   text="Model checking in the small-scope sense over three nested finite spaces (programs x request environments x conformant stores): soundness is checked by actually evaluating every strictly accepted policy on every environment the library's own validation accepts (error classes, impossible-policy warnings, value inhabits static type at each reached node, strict=>permissive), and non-vacuity by requiring acceptance of a type-directed set of documented guard patterns. This is the level that can see an unsound acceptance (capability leak, optional treated as required, wrong singleton bool type), which per-expression typing tests cannot.",
   note="Trusted base: schema.rs generators and conformance oracle, refsem evaluator (cross-checked against the real evaluator on every case), val_in_type. Members of proper entity LUBs are not observable via public API (none arise in strict mode). Templates are covered through 600 template+link candidates (slots in ==, in, is..in scope positions), without the typed-AST walk. Quick: ~30k candidate policies x ~4k environments.",
   design="§3 C03"),
 "C11": dict(
   category="fault_enumeration",
   technique="exhaustive single-fault enumeration: every conformant store/request of a small universe through every schema-taking entry point must be accepted, every single-fault mutation (60+ fault classes x positions x base data x 2 schema syntaxes) must be rejected by every entry point that receives the faulty part; oracle = conformance predicate written from the statement",
   text="Fault enumeration (deviation bound = 1 fault): the conformant side enumerates the product of presence/optional/value/parent choices of universe W; the fault side applies each single requirement violation at each position where it applies and runs all 17 entry points. Exactness is two for-alls across entry points that each re-implement part of the walk, so enumerating (fault class x entry point) completely is what exposes an entry point that skips one check.",
   note="Trusted base: schema.rs conformance oracle (entity_conforms/request_conforms), generators. Faults are single. One genuine defect is listed in known_findings.json (F3: Context::from_json_value with a schema does not type-check primitive / entity-typed / enum-typed attributes).",
   design="§3 C11"),
 "C05": dict(
   technique="bounded-exhaustive enumeration of policy texts (every operator nesting parent x position x child, depth-3 chains, literal/unary-minus corners, all strings <=2 over a 15-char content alphabet in every string position, policy-level grid) in 3 parenthesisation/escape styles; each parsed, printed, re-parsed by the real code and compared structurally (loc-free abstraction) and semantically (reference evaluator)",
   text="Model checking in the small-scope sense: the full finite space of programs below the bound is enumerated; for each the real parser and printer are run (text->AST->Display->AST, and JSON->to_cedar->AST) and the re-parsed object is compared with the first for structural identity, and both are evaluated and compared with the reference evaluator's verdict for the generator's term. Right level: printing decides parentheses/escapes by case analysis over the AST, and a missing case only shows for particular nestings - which bounded-exhaustive nesting enumeration covers completely.",
   note="Trusted base: refsem printer (emits grammar-valid text), bind::abs_policy, reference evaluator. Bounds: 44 constructors, depth 2 complete, depth-3 chains over 16 (quick) / all (thorough) constructors, content strings of length <=2.",
   design="§3 C05"),
 "C06": dict(
   technique="bounded-exhaustive enumeration of the C05 program set pushed through every conversion direction (CST->EST, AST->EST->JSON->EST->AST, AST<->PST, PST<->EST, API to_json/from_json/to_pst/from_pst, protobuf encode/decode of templates and of policy sets with links, own JSON rendering -> from_json -> to_cedar), compared structurally and by authorization response",
   text="Model checking in the small-scope sense: every program of the bounded space is converted by the real code in each direction and the result compared with the original by a loc-free structural abstraction (ids, effect, annotations, scope, slots/link bindings, condition) and by its authorization outcome against the reference evaluator. Losslessness is a for-all-programs claim over hand-written structural recursions; enumerating every expression form in every position is what reaches a single mistranslated arm.",
   note="Trusted base: bind::abs_policy/abs_template, refsem EST renderer and evaluator. Protobuf feature is compiled in by the harness (the baseline suite does not). Protobuf schema/validator messages not covered.",
   design="§3 C06"),
 "C01": dict(
   technique="bounded-exhaustive enumeration of all ordered policy tuples (effect x outcome atoms, n<=4/5) x construction path x id spelling x entity insertion order x call history (depth 3), each authorized by the real Authorizer and compared with a reference authorizer",
   text="Model checking in the small-scope sense: every ordered tuple of permit/forbid x satisfied/unsatisfied/erroring policies up to the bound, in every construction path, id spelling and insertion order, and every call history of depth<=3 on one Authorizer, is executed on the real authorizer and compared with an independent reference authorizer (decision, reasons, erroring ids). The claim is a for-all over policy sets/orders/histories of a pure function, so exhaustive enumeration of the combinatorial core (3^n x 2^n mixes, tie-breaks between buckets) is the right level.",
   note="Trusted base: refsem reference evaluator+authorizer, bind.rs. Bounds: n<=4 (quick) / n<=5 (thorough) policies, 4 environments, 4 construction paths, 3 id spellings. Hash-map iteration order is varied by rebuilding each set twice and fresh-thread replays, not enumerated.",
   design="§3 C01"),
 "C02": dict(
   technique="bounded-exhaustive enumeration of expressions (operator x operand kind x error position, depth<=2 cores) run on the real evaluator through 7 arrival paths, compared case-by-case with an independent reference evaluator",
   text="Model checking in the small-scope sense: the whole finite space of (expression, environment) cases below the stated bound is enumerated and each case is executed on the real parser/evaluator/authorizer and compared with a reference evaluator written from the language definition (lock-step conformance). Right level because the property is a for-all over programs and inputs with no concurrency; exhaustive enumeration of operator x operand-kind x error-position reaches the off-diagonal cases examples miss.",
   note="Trusted base: the reference evaluator in mc/crates/refsem (written from the language definition, no cedar code), the abstraction functions in bind.rs, std IpAddr Debug output. Bounds: ~60 leaves, depth 1 everywhere, depth 2 for short-circuit/ordering cores; hash-map iteration order is not enumerated.",
   design="§3 C02"),
}
NA_REASON = "check under construction in this round (see DESIGN.md §3); will be claimed once its bounded-exhaustive check passes on the unchanged tree"
m = {
 "version": 1,
 "setup_cmd": "cd /verif && ./check --build",
 "hooks": {
   "guard": "cedar_verif",
   "enable": "no source hooks are needed: the harness crate /verif/mc depends on /repo's crates by path with features partial-eval,tpe,entity-manifest,protobufs,permissive-validate,partial-validate and observes through public (doc-hidden) API only",
   "baseline_off_cmd": "cd /repo && cargo nextest run --workspace --no-fail-fast --tool-config-file pb:/w/lib/nextest.toml --profile pb --test-threads 8 --offline",
   "source_commits": [],
   "add_only": True,
 },
 "engines": [
   {"name": "mc", "path": "/verif/mc", "serves_properties": sorted(CHECKS), "kind_free_text": "Rust harness: bounded-exhaustive enumeration (E-enum) and explicit-state BFS (E-state, stateright) over the real cedar crates, stepped in lock-step with reference models in mc/crates/refsem"},
 ],
 "checks": [],
 "not_applicable": [],
 "notes": "All checks: ./check <id> <tier>; exit 0 held, 1 + VIOLATION line, 2 machinery error. Evidence in /verif/evidence/<id>.json is rewritten by every run. known_findings.json lists genuine defects (none open).",
}
for pid in ALL:
    if pid in CHECKS:
        c = CHECKS[pid]
        m["checks"].append({
          "property_id": pid,
          "quick_cmd": f"cd /verif && ./check {pid} quick",
          "thorough_cmd": f"cd /verif && ./check {pid} thorough",
          "evidence_file": f"/verif/evidence/{pid}.json",
          "replay_cmd_template": f"cd /verif && ./check {pid} --replay {{path}}",
          "engine": "mc",
          "level_claimed": {"category": c.get("category", "model_checking"), "text": c["text"], "design_ref": c["design"]},
          "level_note": c["note"],
          "technique": c["technique"],
        })
    else:
        m["not_applicable"].append({"property_id": pid, "reason": NA_REASON})
json.dump(m, open('/verif/MANIFEST.json', 'w'), indent=1)
print("claimed:", sorted(CHECKS))
