#!/usr/bin/env python3
"""Generate /verif/MANIFEST.json from the table below (single source of truth)."""
import json
ALL = ["C%02d" % i for i in range(1, 21)]
CHECKS = {
 "C03": dict(
   technique="bounded-exhaustive enumeration of policies over a schema vocabulary (type-directed must-accept set, guard x access x shape grid, all depth-1/2 operator applications over 41 typed atoms, several action scopes); each is validated by the real validator and every accepted one is evaluated by the real evaluator on every conformant (request, store) of a small universe, with a typed-AST walk checking value-in-static-type at every reached sub-expression",
   text="Model checking in the small-scope sense over three nested finite spaces (programs x request environments x conformant stores): soundness is checked by actually evaluating every strictly accepted policy on every environment the library's own validation accepts (error classes, impossible-policy warnings, value inhabits static type at each reached node, strict=>permissive), and non-vacuity by requiring acceptance of a type-directed set of documented guard patterns. This is the level that can see an unsound acceptance (capability leak, optional treated as required, wrong singleton bool type), which per-expression typing tests cannot.",
   note="Trusted base: schema.rs generators and conformance oracle, refsem evaluator (cross-checked against the real evaluator on every case), val_in_type. Members of proper entity LUBs are not observable via public API (none arise in strict mode). Templates not covered. Quick: ~30k candidate policies x ~4k environments.",
   design="§3 C03"),
 "C11": dict(
   category="fault_enumeration",
   technique="exhaustive single-fault enumeration: every conformant store/request of a small universe through every schema-taking entry point must be accepted, every single-fault mutation (60+ fault classes x positions x base data x 2 schema syntaxes) must be rejected by every entry point that receives the faulty part; oracle = conformance predicate written from the statement",
   text="Fault enumeration (deviation bound = 1 fault): the conformant side enumerates the product of presence/optional/value/parent choices of universe W; the fault side applies each single requirement violation at each position where it applies and runs all 17 entry points. Exactness is two for-alls across entry points that each re-implement part of the walk, so enumerating (fault class x entry point) completely is what exposes an entry point that skips one check.",
   note="Trusted base: schema.rs conformance oracle (entity_conforms/request_conforms), generators. Faults are single. One genuine defect is listed in known_findings.json (F3: Context::from_json_value with a schema does not type-check primitive / entity-typed / enum-typed attributes).",
   design="§3 C11"),
 "C05": dict(
   technique="bounded-exhaustive enumeration of policy texts (every operator nesting parent x position x child, depth-3 chains, literal/unary-minus corners, all strings <=2 over a 15-char content alphabet in every string position, policy-level grid) in 3 parenthesisation/escape styles; each parsed, printed, re-parsed by the real code and compared structurally (loc-free abstraction) and semantically (reference evaluator)",
   text="Model checking in the small-scope sense: the full finite space of programs below the bound is enumerated; for each the real parser and printer are run (text->AST->Display->AST, and JSON->to_cedar->AST) and the re-parsed object is compared with the first for structural identity, and both are evaluated and compared with the reference evaluator's verdict for the generator's term. Right level: printing decides parentheses/escapes by case analysis over the AST, and a missing case only shows for particular nestings - which bounded-exhaustive nesting enumeration covers completely.",
   note="Trusted base: refsem printer (emits grammar-valid text), bind::abs_policy, reference evaluator. Bounds: 44 constructors, depth 2 complete, depth-3 chains over 16 (quick) / all (thorough) constructors, content strings of length <=2.",
   design="§3 C05"),
 "C06": dict(
   technique="bounded-exhaustive enumeration of the C05 program set pushed through every conversion direction (CST->EST, AST->EST->JSON->EST->AST, AST<->PST, PST<->EST, API to_json/from_json/to_pst/from_pst, protobuf encode/decode of templates and of policy sets with links, own JSON rendering -> from_json -> to_cedar), compared structurally and by authorization response",
   text="Model checking in the small-scope sense: every program of the bounded space is converted by the real code in each direction and the result compared with the original by a loc-free structural abstraction (ids, effect, annotations, scope, slots/link bindings, condition) and by its authorization outcome against the reference evaluator. Losslessness is a for-all-programs claim over hand-written structural recursions; enumerating every expression form in every position is what reaches a single mistranslated arm.",
   note="Trusted base: bind::abs_policy/abs_template, refsem EST renderer and evaluator. Protobuf feature is compiled in by the harness (the baseline suite does not). Protobuf schema/validator messages not covered.",
   design="§3 C06"),
 "C01": dict(
   technique="bounded-exhaustive enumeration of all ordered policy tuples (effect x outcome atoms, n<=4/5) x construction path x id spelling x entity insertion order x call history (depth 3), each authorized by the real Authorizer and compared with a reference authorizer",
   text="Model checking in the small-scope sense: every ordered tuple of permit/forbid x satisfied/unsatisfied/erroring policies up to the bound, in every construction path, id spelling and insertion order, and every call history of depth<=3 on one Authorizer, is executed on the real authorizer and compared with an independent reference authorizer (decision, reasons, erroring ids). The claim is a for-all over policy sets/orders/histories of a pure function, so exhaustive enumeration of the combinatorial core (3^n x 2^n mixes, tie-breaks between buckets) is the right level.",
   note="Trusted base: refsem reference evaluator+authorizer, bind.rs. Bounds: n<=4 (quick) / n<=5 (thorough) policies, 4 environments, 4 construction paths, 3 id spellings. Hash-map iteration order is varied by rebuilding each set twice and fresh-thread replays, not enumerated.",
   design="§3 C01"),
 "C02": dict(
   technique="bounded-exhaustive enumeration of expressions (operator x operand kind x error position, depth<=2 cores) run on the real evaluator through 7 arrival paths, compared case-by-case with an independent reference evaluator",
   text="Model checking in the small-scope sense: the whole finite space of (expression, environment) cases below the stated bound is enumerated and each case is executed on the real parser/evaluator/authorizer and compared with a reference evaluator written from the language definition (lock-step conformance). Right level because the property is a for-all over programs and inputs with no concurrency; exhaustive enumeration of operator x operand-kind x error-position reaches the off-diagonal cases examples miss.",
   note="Trusted base: the reference evaluator in mc/crates/refsem (written from the language definition, no cedar code), the abstraction functions in bind.rs, std IpAddr Debug output. Bounds: ~60 leaves, depth 1 everywhere, depth 2 for short-circuit/ordering cores; hash-map iteration order is not enumerated.",
   design="§3 C02"),
}
NA_REASON = "check under construction in this round (see DESIGN.md §3); will be claimed once its bounded-exhaustive check passes on the unchanged tree"
m = {
 "version": 1,
 "setup_cmd": "cd /verif && ./check --build",
 "hooks": {
   "guard": "cedar_verif",
   "enable": "no source hooks are needed: the harness crate /verif/mc depends on /repo's crates by path with features partial-eval,tpe,entity-manifest,protobufs,permissive-validate,partial-validate and observes through public (doc-hidden) API only",
   "baseline_off_cmd": "cd /repo && cargo nextest run --workspace --no-fail-fast --tool-config-file pb:/w/lib/nextest.toml --profile pb --test-threads 8 --offline",
   "source_commits": [],
   "add_only": True,
 },
 "engines": [
   {"name": "mc", "path": "/verif/mc", "serves_properties": sorted(CHECKS), "kind_free_text": "Rust harness: bounded-exhaustive enumeration (E-enum) and explicit-state BFS (E-state, stateright) over the real cedar crates, stepped in lock-step with reference models in mc/crates/refsem"},
 ],
 "checks": [],
 "not_applicable": [],
 "notes": "All checks: ./check <id> <tier>; exit 0 held, 1 + VIOLATION line, 2 machinery error. Evidence in /verif/evidence/<id>.json is rewritten by every run. known_findings.json lists genuine defects (none open).",
}
for pid in ALL:
    if pid in CHECKS:
        c = CHECKS[pid]
        m["checks"].append({
          "property_id": pid,
          "quick_cmd": f"cd /verif && ./check {pid} quick",
          "thorough_cmd": f"cd /verif && ./check {pid} thorough",
          "evidence_file": f"/verif/evidence/{pid}.json",
          "replay_cmd_template": f"cd /verif && ./check {pid} --replay {{path}}",
          "engine": "mc",
          "level_claimed": {"category": c.get("category", "model_checking"), "text": c["text"], "design_ref": c["design"]},
          "level_note": c["note"],
          "technique": c["technique"],
        })
    else:
        m["not_applicable"].append({"property_id": pid, "reason": NA_REASON})
json.dump(m, open('/verif/MANIFEST.json', 'w'), indent=1)
print("claimed:", sorted(CHECKS))
