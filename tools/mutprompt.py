#!/usr/bin/env python3
"""Print the prompt given to an independent mutation sub-agent for property <id>, tag <k>."""
import json, sys
pid, tag = sys.argv[1], sys.argv[2]
extra = sys.argv[3] if len(sys.argv) > 3 else ''
prop = None
for l in open('/verif/properties.jsonl'):
    d = json.loads(l)
    if d['id'] == pid: prop = d
wt = f'/tmp/mut/{pid}-{tag}'
out = f'/tmp/mutout/{pid}-{tag}'
print(f"""You are helping test a verification effort for the Rust project cedar-policy/cedar (the Cedar authorization policy language). The repository is at /repo (git, pinned commit). You must NOT edit anything in /repo itself and you must NOT read or use anything under /verif. Work only in your own scratch git worktree.

Here is a semantic property of the code base that is supposed to hold (JSON):

{json.dumps({k: prop[k] for k in ('id','title','statement','quantifier','why_tests_cant','anchors')}, indent=1)}

YOUR TASK: produce TWO different, independent, realistic code changes ("seeded defects") to the cedar sources, each of which
  (a) BREAKS the property above (for some input / history the property's guarantee no longer holds),
  (b) still COMPILES (whole workspace, including with the features `partial-eval,tpe,entity-manifest,protobufs,permissive-validate,partial-validate` of cedar-policy), and
  (c) still PASSES the existing test suite: every test that passed before must still pass, and
  (d) needs something SPECIFIC to manifest: an unusual input, a particular multi-step sequence of operations, a boundary value, a particular nesting/combination, or two cooperating sites that each look fine alone. NOT something ordinary use would expose at once (e.g. not "every decision is inverted"). Think of the kind of plausible slip a maintainer could make in a refactoring: a dropped case in a match, an off-by-one at a boundary, a wrong bucket used in a rarely mixed situation, a stale cache entry not invalidated, a swapped argument that only matters when the two differ, a short-circuit that hides an error, an escape not applied in one of several printing sites, and so on. The two changes should be in different mechanisms/functions (look at the property's anchors for where the relevant logic lives) and should not be trivially equivalent variants of each other.

For each change also write a DEMONSTRATION: a small Rust integration test file (e.g. `cedar-policy/tests/seed_demo_<n>.rs`, using only the public API of the crates, enabling features via `cargo test -p cedar-policy --features ... --test seed_demo_<n>` if needed; or a unit test placed in a NEW file if the public API cannot reach it) that FAILS with your change applied and PASSES on the unmodified code. The demonstration is not part of the patch.

SETUP (do exactly this):
  git -C /repo worktree add --detach {wt} HEAD
  cd {wt}
  # warm start so the build is fast (registry deps are reused; workspace crates rebuild):
  cp -r /repo/target {wt}/target 2>/dev/null || true
All builds/tests run inside {wt} with `--offline` (there is no network). The machine is shared and slow: use at most `-j 6` for cargo builds, expect a suite run to take 15-40 minutes, and do not run more than one suite at a time. NEVER use `pkill -f`/`killall` with patterns that could match other users' cargo/rustc/nextest processes.

HOW TO CHECK (c): run   python3 /tmp/mut/suite_diff.py {wt} --fast
It runs the pinned baseline command (cargo nextest over the whole workspace, offline; --fast skips two test binaries that need an absent SMT solver and only time out) and prints `missing_from_pass=N` = number of tests that passed on the original code but do not pass now. N must be 0 (about 166 other tests fail on the original code too - e.g. those needing the cvc5 solver - ignore those). Run it once BEFORE making any change to see the healthy output. Each change must be checked separately (apply change 1 alone -> suite -> demo fails; revert; apply change 2 alone -> suite -> demo fails; revert; demos pass on clean tree).

DELIVERABLES: create directory {out}/ containing, for n = 1, 2:
  {out}/patch<n>.diff     - `git diff` of ONLY the source change n (against HEAD), applies with `git apply` at the repo root
  {out}/demo<n>.rs        - the demonstration test file, with a header comment giving the exact path where it must be placed in the repo and the exact cargo command that runs it
  {out}/meta<n>.json      - {{"property": "{pid}", "summary": "<one sentence: what was changed>", "needs_to_manifest": "<the specific input/sequence/interleaving needed>", "files_changed": [...], "demo_path": "<repo-relative path for demo>", "demo_cmd": "<cargo command>", "suite_missing_from_pass": 0, "demo_fails_with_patch": true, "demo_passes_without_patch": true}}
Only claim what you actually ran. If after serious effort you can only produce one qualifying change, deliver one and say so.

CLEANUP (mandatory at the end, after the deliverables are written): 
  git -C /repo worktree remove --force {wt}
and make sure {wt} no longer exists (rm -rf if needed). Do not leave build output behind anywhere else.

{extra}
Report back briefly: for each change, the file/function changed, what it needs to manifest, and the results of the three checks.""")
