#!/bin/bash
# Scratch copy of (repo worktree + harness) so that patches can be applied and checks run
# WITHOUT touching /repo or /verif.
#   tools/scratch.sh new <tag>            create /tmp/sh/<tag>/{repo,mc,out,target}
#   tools/scratch.sh run <tag> <Cxx> [tier]   build + run one check there (VERIF_ROOT=/tmp/sh/<tag>/out)
#   tools/scratch.sh sync <tag>           re-copy /verif/mc sources into the scratch harness
#   tools/scratch.sh rm <tag>             remove everything (worktree, build output)
set -u
cmd="${1:?}"; tag="${2:?}"; D=/tmp/sh/$tag
sync_src() {
  mkdir -p "$D/mc"
  rsync -a --delete --exclude target /verif/mc/ "$D/mc/"
  sed -i "s#/repo/#$D/repo/#g" "$D/mc/crates/mc/Cargo.toml"
  sed -i "s#/verif/target#$D/target#" "$D/mc/.cargo/config.toml"
}
case "$cmd" in
  new)
    mkdir -p "$D/out"
    git -C /repo worktree add --detach "$D/repo" HEAD >/dev/null 2>&1 || { echo "worktree add failed"; exit 2; }
    sync_src
    cp /verif/known_findings.json "$D/out/"
    if [ -d /verif/target/mc ] && [ "${NO_WARM:-0}" != 1 ]; then mkdir -p "$D/target" && cp -r /verif/target/mc "$D/target/mc"; fi
    echo "$D"
    ;;
  sync) sync_src ;;
  run)
    id="${3:?}"; tier="${4:-quick}"
    cd "$D/mc" || exit 2
    if ! CARGO_NET_OFFLINE=true cargo build --offline --profile mc -p mc ${FEATURES:+--no-default-features --features "$FEATURES"} >"$D/build.log" 2>&1; then
      echo "MACHINERY ERROR: build failed"; grep -E "^error" -A 8 "$D/build.log" | head -60; exit 2
    fi
    VERIF_ROOT="$D/out" "$D/target/mc/mc" "$id" --tier "$tier"
    ;;
  rm)
    git -C /repo worktree remove --force "$D/repo" >/dev/null 2>&1
    rm -rf "$D"
    git -C /repo worktree prune
    ;;
esac
