#!/bin/bash
# tools/mutrun.sh <tag> <patch.diff> <Cxx> [<Cxx>...]
# Apply one patch to the scratch worktree /tmp/sh/<tag>/repo, run the listed quick checks there,
# print "<patch> <Cxx> rc=<code>", revert. Creates the scratch copy on first use.
set -u
tag="$1"; patch="$2"; shift 2
D=/tmp/sh/$tag
[ -d "$D/repo" ] || /verif/tools/scratch.sh new "$tag" >/dev/null || exit 2
/verif/tools/scratch.sh sync "$tag"
cp /verif/known_findings.json "$D/out/"
git -C "$D/repo" checkout -q -- .
# follow /repo HEAD (fix: commits land there)
git -C "$D/repo" checkout -q --detach "$(git -C /repo rev-parse HEAD)"
if [ "$patch" != "-" ]; then
  git -C "$D/repo" apply "$patch" || { echo "$patch: DOES NOT APPLY"; exit 2; }
fi
for c in "$@"; do
  out=$(TIER=quick /verif/tools/scratch.sh run "$tag" "$c" quick 2>&1); rc=$?
  echo "$(basename "$patch") $c rc=$rc $(echo "$out" | grep -m1 -E 'VIOLATION|MACHINERY' | cut -c1-120)"
  [ $rc -eq 1 ] && echo "$out" | grep -m2 "what:" | cut -c1-300
done
git -C "$D/repo" checkout -q -- .
