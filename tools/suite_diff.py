#!/usr/bin/env python3
"""Run the pinned baseline suite in a given repo dir (or worktree) and report which of the
BASELINE stable_pass tests no longer pass. usage: suite_diff.py <repo_dir> [--no-run junit.xml]"""
import json, subprocess, sys, os, ast, xml.etree.ElementTree as ET
repo = sys.argv[1]
base = json.load(open('/root/.vp/BASELINE.json'))
sp = base['stable_pass']
if isinstance(sp, str): sp = ast.literal_eval(sp)
sp = set(sp)
junit = os.path.join(repo, 'target/nextest/pb/junit.xml')
if '--no-run' not in sys.argv:
    if os.path.exists(junit): os.remove(junit)
    cmd = ['cargo','nextest','run','--workspace','--no-fail-fast','--tool-config-file','pb:/w/lib/nextest.toml','--profile','pb','--test-threads','8','--offline']
    if '--fast' in sys.argv:
        # skip test binaries none of whose tests is in the baseline's stable_pass set (they need the
        # cvc5 solver and only time out); the comparison against stable_pass is unaffected
        skip = ['properties', 'cedar_examples']
        assert not any(t.split('::')[1] in skip and t.startswith('cedar-policy-symcc::') for t in sp)
        cmd += ['-E', 'not (package(cedar-policy-symcc) & (' + ' | '.join('binary(%s)' % b for b in skip) + '))']
    p = subprocess.run(cmd, cwd=repo, stdout=subprocess.PIPE, stderr=subprocess.STDOUT, text=True)
    tail = '\n'.join(p.stdout.splitlines()[-8:])
    print(tail)
if not os.path.exists(junit):
    print('NO JUNIT (build failure?)'); sys.exit(2)
passed=set()
for tc in ET.parse(junit).getroot().iter('testcase'):
    ok = not any(c.tag in ('failure','error','skipped','flakyFailure','rerunFailure') for c in tc)
    name = (tc.get('classname') or '') + '::' + (tc.get('name') or '')
    if ok: passed.add(name)
# names in baseline: crate::path; try to match
missing = sorted(t for t in sp if t not in passed)
print('baseline_stable=%d passed_now=%d missing_from_pass=%d' % (len(sp), len(passed), len(missing)))
for m in missing[:40]: print('  LOST', m)
sys.exit(1 if missing else 0)
